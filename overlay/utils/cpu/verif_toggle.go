//go:build verif && !purego && !noadx && !noavx && amd64

package cpu

import "os"

// Added by /verif through `go build -overlay` (never present in /repo): lets the C09
// orchestrator run the same binary with the ADX / AVX-512 code paths switched off.
func init() {
	if os.Getenv("VERIF_NOADX") != "" {
		SupportADX = false
		SupportAVX512 = false
	}
	if os.Getenv("VERIF_NOAVX512") != "" {
		SupportAVX512 = false
	}
}
