package main

import (
	"fmt"

	fr377 "github.com/consensys/gnark-crypto/ecc/bls12-377/fr"
	sis377 "github.com/consensys/gnark-crypto/ecc/bls12-377/fr/sis"
	"github.com/consensys/gnark-crypto/field/babybear"
	bbsis "github.com/consensys/gnark-crypto/field/babybear/sis"
	"github.com/consensys/gnark-crypto/field/goldilocks"
	glsis "github.com/consensys/gnark-crypto/field/goldilocks/sis"
	"github.com/consensys/gnark-crypto/field/koalabear"
	fext "github.com/consensys/gnark-crypto/field/koalabear/extensions"
	kbsis "github.com/consensys/gnark-crypto/field/koalabear/sis"
	"github.com/consensys/gnark-crypto/field/koalabear/vortex"

	"verifh/vlib"
)

// sharedObj: one set of argument objects (a SIS key and its input, Vortex parameters and a matrix) and the
// computations run on them; every history of two (thorough: three) computations must give each computation the result
// it gives on fresh objects and leave the deep snapshot of the shared objects unchanged.
type sharedObj struct {
	name string
	mk   func() (shared any, ops []func() string, opNames []string, held func() string)
	// held (may be nil) re-examines the results earlier operations returned and the caller still holds: a non-empty
	// string says which one a later call has modified
}

func sisObjects() []sharedObj {
	d := func(v any) string { return fmt.Sprintf("%v", v) }
	var l []sharedObj
	for _, p := range [][3]int{{4, 8, 64}, {9, 16, 600}, {9, 8, 300}, {6, 16, 70}} {
		p := p
		l = append(l, sharedObj{fmt.Sprintf("koalabear-sis%v", p), func() (any, []func() string, []string, func() string) {
			k, err := kbsis.NewRSis(5, p[0], p[1], p[2])
			if err != nil {
				panic(err)
			}
			in := make([]koalabear.Element, p[2])
			for i := range in {
				in[i].SetUint64(uint64(i*i*31 + 7))
			}
			short := in[:p[2]/3+1]
			h := func(v []koalabear.Element) func() string {
				return func() string {
					res := make([]koalabear.Element, k.Degree)
					err := k.Hash(v, res)
					return d(res) + d(err)
				}
			}
			return []any{k, in}, []func() string{h(in), h(short)}, []string{"Hash(full)", "Hash(short)"}, nil
		}})
	}
	l = append(l, sharedObj{"babybear-sis", func() (any, []func() string, []string, func() string) {
		k, _ := bbsis.NewRSis(5, 9, 16, 600)
		in := make([]babybear.Element, 600)
		for i := range in {
			in[i].SetUint64(uint64(i*i*31 + 9))
		}
		h := func(v []babybear.Element) func() string {
			return func() string {
				res := make([]babybear.Element, k.Degree)
				err := k.Hash(v, res)
				return d(res) + d(err)
			}
		}
		return []any{k, in}, []func() string{h(in), h(in[:77])}, []string{"Hash(full)", "Hash(short)"}, nil
	}})
	l = append(l, sharedObj{"goldilocks-sis", func() (any, []func() string, []string, func() string) {
		k, _ := glsis.NewRSis(5, 5, 16, 70)
		in := make([]goldilocks.Element, 70)
		for i := range in {
			in[i].SetUint64(uint64(i*i+17) * 0x9E3779B97F4A7C15)
		}
		h := func(v []goldilocks.Element) func() string {
			return func() string {
				res := make([]goldilocks.Element, k.Degree)
				err := k.Hash(v, res)
				return d(res) + d(err)
			}
		}
		return []any{k, in}, []func() string{h(in), h(in[:9])}, []string{"Hash(full)", "Hash(short)"}, nil
	}})
	for _, p := range [][3]int{{6, 16, 20}, {3, 8, 20}} {
		p := p
		l = append(l, sharedObj{fmt.Sprintf("bls12-377-sis%v", p), func() (any, []func() string, []string, func() string) {
			k, _ := sis377.NewRSis(5, p[0], p[1], p[2])
			in := make([]fr377.Element, p[2])
			for i := range in {
				in[i].SetUint64(uint64(i*i + 19))
				in[i].Square(&in[i]).Square(&in[i]).Square(&in[i]).Square(&in[i]).Square(&in[i])
			}
			h := func(v []fr377.Element) func() string {
				return func() string {
					res := make([]fr377.Element, k.Degree)
					err := k.Hash(v, res)
					return d(res) + d(err)
				}
			}
			return []any{k, in}, []func() string{h(in), h(in[:5])}, []string{"Hash(full)", "Hash(short)"}, nil
		}})
	}
	l = append(l, sharedObj{"koalabear-vortex", func() (any, []func() string, []string, func() string) {
		sp, _ := kbsis.NewRSis(7, 4, 8, 8)
		params, err := vortex.NewParams(8, 8, sp, 2, 3)
		if err != nil {
			panic(err)
		}
		input := make([][]koalabear.Element, 8)
		for i := range input {
			input[i] = make([]koalabear.Element, 8)
			for j := range input[i] {
				input[i][j].SetUint64(uint64(1000*i + j*j + 3))
			}
		}
		var alpha fext.E4
		alpha.B0.A0.SetUint64(3)
		alpha.B0.A1.SetUint64(5)
		alpha.B1.A0.SetUint64(7)
		alpha.B1.A1.SetUint64(11)
		ps, err := vortex.Commit(params, input)
		if err != nil {
			panic(err)
		}
		commit := func() string {
			s, err := vortex.Commit(params, input)
			if err != nil {
				return d(err)
			}
			return d(s.GetCommitment()) + d(s.EncodedMatrix)
		}
		lin := func() string { // on the shared prover state
			ps.OpenLinComb(alpha)
			return d(ps.Ualpha)
		}
		type heldProof struct {
			pr   *vortex.Proof
			dump string
		}
		var heldProofs []heldProof
		open := func() string {
			ps.OpenLinComb(alpha)
			pr, err := ps.OpenColumns([]int{0, 5, 15})
			if err == nil {
				heldProofs = append(heldProofs, heldProof{pr, vlib.DeepDump(pr)}) // the caller keeps the proof
			}
			return d(pr) + d(err)
		}
		var beta fext.E4
		beta.B0.A0.SetUint64(13)
		beta.B1.A1.SetUint64(17)
		lin2 := func() string { // another combination on the same prover state
			ps.OpenLinComb(beta)
			return d(ps.Ualpha)
		}
		held := func() string {
			for i, h := range heldProofs {
				if vlib.DeepDump(h.pr) != h.dump {
					return fmt.Sprintf("the proof returned by OpenColumns call #%d", i+1)
				}
			}
			return ""
		}
		return []any{params, input, ps.EncodedMatrix, ps.SisHashes, ps.MerkleTree}, []func() string{commit, lin, open, lin2}, []string{"Commit", "OpenLinComb", "OpenLinComb+OpenColumns", "OpenLinComb(another coefficient)"}, held
	}})
	return l
}

func runShared(r *vlib.Run, g string, o sharedObj, depth int) {
	// isolated results: each computation on fresh objects
	_, ops0, names, _ := o.mk()
	iso := make([]string, len(ops0))
	for i := range ops0 {
		_, ops, _, _ := o.mk()
		iso[i] = ops[i]()
	}
	n := len(names)
	total := 1
	for i := 0; i < depth; i++ {
		total *= n
	}
	states := 0
	for h := 0; h < total; h++ {
		seq := make([]int, depth)
		x := h
		for i := range seq {
			seq[i] = x % n
			x /= n
		}
		shared, ops, _, held := o.mk()
		snap := vlib.DeepDump(shared)
		id := ""
		for step, k := range seq {
			id += names[k] + ";"
			var got string
			if pn := vlib.Guard(func() { got = ops[k]() }); pn != "" {
				r.FailIn(g, "pure/"+o.name+"/panic", id, pn, nil)
				break
			}
			states++
			if got != iso[k] {
				r.FailIn(g, "pure/"+o.name+"/result-depends-on-history/"+names[k], id, fmt.Sprintf("%s: call %d (%s) of the history %s on shared objects differs from its result on fresh objects", o.name, step+1, names[k], id), nil)
			}
			if held != nil {
				if what := held(); what != "" {
					r.FailIn(g, "pure/"+o.name+"/returned-result-modified-by-a-later-call/"+names[k], id, fmt.Sprintf("%s: after the history %s, %s (still held by the caller) has changed", o.name, id, what), nil)
					break
				}
			}
			if vlib.DeepDump(shared) != snap {
				r.FailIn(g, "pure/"+o.name+"/argument-modified/"+names[k], id, fmt.Sprintf("%s: %s modified the shared key / parameters / input", o.name, names[k]), nil)
				break
			}
		}
	}
	r.AddStates(states)
	r.AddTransitions(states)
	r.Add(states)
	r.Tag("pure/" + o.name)
}
