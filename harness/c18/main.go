// C18 — calls are pure, repeatable and safe to run concurrently on shared inputs
// (engine H: call histories on shared argument objects; engine S: schedules of concurrent callers over the
// lazily initialised / pooled globals; free-running -race pass for unsynchronised accesses).
package main

import (
	"fmt"

	c_bn254 "verifh/gen/curves/c_bn254"
	"verifh/vlib"
)

// coldSlots bounds the number of operations per curve (the curve packages ignore indices beyond their list)
const coldSlots = 96

type curveEntryRunC18 struct {
	name string
	run  func(r *vlib.Run, g string)
}

func main() {
	r := vlib.Start("C18", "model_checking")
	r.Rule("H (7 pairing curves, one fresh worker process each): ~25 exported computations \u2014 Pair, PairingCheck, Pair / MillerLoop with a point at infinity first / in the middle, PairFixedQ and MillerLoopFixedQ on shared precomputed lines, MultiExp G1/G2, batch scalar multiplication, batch Jacobian-to-affine, subgroup tests, scalar multiplication, kzg Commit / Open / Verify (true and false) / BatchVerifyMultiPoints on one SRS, FFT / inverse coset FFT on one domain, NewDomain, MiMC, hash-to-curve, Encoder, and the getters of lazily initialised or cached state whose results are then scribbled on (Modulus, ScalarField, GetEdwardsCurve, InterpolateOnRange, MultiLin.Evaluate with a pool) \u2014 are run in every history of length <= 2 (thorough 3) on ONE set of argument objects; every call must return its result on fresh objects and leave the deep snapshot of all shared arguments unchanged. Cold starts (96 worker processes per curve): every operation once as the first computation of a fresh process vs. after all operations. S (bn254): 2 and 3 concurrent callers of the sync.Once-initialised Edwards parameters and MiMC constants, the sync.Map Lagrange-basis cache, the pooled big.Int of negative-exponent Exp (field and GT) and per-caller polynomial pools, all interleavings at every sync operation (unbounded for 2 callers, deviation bound 2 for 3; MiMC bound 1), every caller must obtain the sequential result. Race pass: first use of the lazy globals by 16 goroutines, then 2 / 8 / 64 goroutines running 20 operations on the same read-only objects (bn254 + koalabear SIS / Poseidon2) under GOMAXPROCS 1,2,3,8,16, built with -race, results compared with the sequential ones. non-trivial = groups")
	r.Assume("cooperative scheduler is sequentially consistent; unsynchronised accesses are the race pass's job; polynomial.Pool is documented as not thread safe")
	var names []string
	bodies := map[string]func(){}
	// every group runs in a fresh worker process: leaks through process-global state (lazily initialised
	// parameters, caches, pools) are only reproducible from a clean process
	for _, c := range curvesRunC18 {
		c := c
		g := "H/" + c.name
		if sh := r.Shard(); sh != "" {
			if sh == g {
				c.run(r, g)
				r.Finish()
			}
			continue
		}
		names = append(names, g)
		bodies[g] = func() { r.RunShard(g, 0, nil) }
	}
	// cold starts: every operation once as the FIRST computation of a fresh process (only the shared argument objects
	// have been built), compared with its result after all operations have run - lazily initialised globals must not make
	// a result depend on what the process did before. One worker process per (curve, operation index); indices beyond the
	// curve's operation list return at once.
	for _, c := range curvesRunC18 {
		for i := 0; i < coldSlots; i++ {
			c := c
			g := fmt.Sprintf("H/%s#cold%d", c.name, i)
			if sh := r.Shard(); sh != "" {
				if sh == g {
					c.run(r, g)
					r.Finish()
				}
				continue
			}
			names = append(names, g)
			bodies[g] = func() { r.RunShard(g, 0, nil) }
		}
	}
	// engine S: concurrent callers over lazily initialised / pooled globals, one worker process per scenario
	for _, kind := range c_bn254.C18SKinds {
		for _, callers := range []int{2, 3} {
			kind, callers := kind, callers
			g := fmt.Sprintf("S/bn254/%s/%d-callers", kind, callers)
			if sh := r.Shard(); sh != "" {
				if sh == g {
					c_bn254.RunC18S(r, g, kind, callers)
					r.Finish()
				}
				continue
			}
			names = append(names, g)
			bodies[g] = func() { r.RunShard(g, 0, nil) }
		}
	}
	// SIS keys and Vortex parameters as shared objects (fresh worker process per object family)
	for _, o := range sisObjects() {
		o := o
		g := "H/" + o.name
		if sh := r.Shard(); sh != "" {
			if sh == g {
				depth := 2
				if r.Thorough() {
					depth = 3
				}
				runShared(r, g, o, depth)
				r.Finish()
			}
			continue
		}
		names = append(names, g)
		bodies[g] = func() { r.RunShard(g, 0, nil) }
	}
	if r.Shard() != "" {
		r.Harness("unknown shard " + r.Shard())
	}
	names = append(names, "race")
	bodies["race"] = func() { r.RunRacePass("C18") }
	r.Parallel(names, func(g string) { bodies[g]() })
	r.Finish()
}
