// vinstr rewrites Go source files of /repo so that every concurrency primitive goes
// through the verifsched shims (engine S). It needs no type information.
//
//	vinstr <outdir> <overlay-in.json> <overlay-out.json> <repo-relative file or dir>...
//
// For each input file containing a `go` statement, channel operation, close(), an import of
// sync / sync/atomic or a call runtime.NumCPU(), a rewritten copy is written below outdir
// and a Replace entry is added to the overlay. The list of hooked sites is printed.
package main

import (
	"bytes"
	"encoding/json"
	"fmt"
	"go/ast"
	"go/format"
	"go/parser"
	"go/token"
	"os"
	"path/filepath"
	"sort"
	"strconv"
	"strings"
)

const (
	repo    = "/repo"
	modPath = "github.com/consensys/gnark-crypto/"
)

type rewriter struct {
	fset   *token.FileSet
	file   *ast.File
	n      map[string]int
	needVS bool
	tmp    int
	errs   []string
}

func (rw *rewriter) sel(name string) ast.Expr {
	rw.needVS = true
	return &ast.SelectorExpr{X: ast.NewIdent("verifsched"), Sel: ast.NewIdent(name)}
}

func isRecv(e ast.Expr) (*ast.UnaryExpr, bool) {
	u, ok := e.(*ast.UnaryExpr)
	return u, ok && u.Op == token.ARROW
}

// rewriteExpr rewrites receive expressions and close()/runtime.NumCPU() calls inside e.
func (rw *rewriter) expr(e ast.Expr) ast.Expr {
	if e == nil {
		return nil
	}
	switch x := e.(type) {
	case *ast.UnaryExpr:
		x.X = rw.expr(x.X)
		if x.Op == token.ARROW {
			rw.n["recv"]++
			return &ast.CallExpr{Fun: rw.sel("Recv"), Args: []ast.Expr{x.X}}
		}
		return x
	case *ast.CallExpr:
		x.Fun = rw.expr(x.Fun)
		for i := range x.Args {
			x.Args[i] = rw.expr(x.Args[i])
		}
		if id, ok := x.Fun.(*ast.Ident); ok && id.Name == "close" && len(x.Args) == 1 {
			rw.n["close"]++
			x.Fun = rw.sel("Close")
		}
		if s, ok := x.Fun.(*ast.SelectorExpr); ok {
			if p, ok := s.X.(*ast.Ident); ok && p.Name == "runtime" && s.Sel.Name == "NumCPU" {
				rw.n["numcpu"]++
				x.Fun = rw.sel("NumCPU")
			}
		}
		return x
	case *ast.BinaryExpr:
		x.X, x.Y = rw.expr(x.X), rw.expr(x.Y)
	case *ast.ParenExpr:
		x.X = rw.expr(x.X)
	case *ast.SelectorExpr:
		x.X = rw.expr(x.X)
	case *ast.IndexExpr:
		x.X, x.Index = rw.expr(x.X), rw.expr(x.Index)
	case *ast.SliceExpr:
		x.X, x.Low, x.High, x.Max = rw.expr(x.X), rw.expr(x.Low), rw.expr(x.High), rw.expr(x.Max)
	case *ast.StarExpr:
		x.X = rw.expr(x.X)
	case *ast.TypeAssertExpr:
		x.X = rw.expr(x.X)
	case *ast.KeyValueExpr:
		x.Value = rw.expr(x.Value)
	case *ast.CompositeLit:
		for i := range x.Elts {
			x.Elts[i] = rw.expr(x.Elts[i])
		}
	case *ast.FuncLit:
		rw.block(x.Body)
	}
	return e
}

func simpleArg(e ast.Expr) bool {
	switch x := e.(type) {
	case *ast.BasicLit:
		return true
	case *ast.Ident:
		return x.Name == "nil" || x.Name == "true" || x.Name == "false"
	case *ast.UnaryExpr:
		return simpleArg(x.X) && x.Op != token.ARROW
	}
	return false
}

func (rw *rewriter) stmt(s ast.Stmt) ast.Stmt {
	switch x := s.(type) {
	case nil:
		return nil
	case *ast.GoStmt:
		rw.n["go"]++
		call := x.Call
		call.Fun = rw.expr(call.Fun)
		var pre []ast.Stmt
		// evaluate function value and arguments now, as the go statement does
		if _, isLit := call.Fun.(*ast.FuncLit); !isLit {
			rw.tmp++
			name := fmt.Sprintf("_vs_f%d", rw.tmp)
			pre = append(pre, &ast.AssignStmt{Lhs: []ast.Expr{ast.NewIdent(name)}, Tok: token.DEFINE, Rhs: []ast.Expr{call.Fun}})
			call.Fun = ast.NewIdent(name)
		}
		for i, a := range call.Args {
			a = rw.expr(a)
			call.Args[i] = a
			if simpleArg(a) {
				continue
			}
			rw.tmp++
			name := fmt.Sprintf("_vs_a%d", rw.tmp)
			pre = append(pre, &ast.AssignStmt{Lhs: []ast.Expr{ast.NewIdent(name)}, Tok: token.DEFINE, Rhs: []ast.Expr{a}})
			call.Args[i] = ast.NewIdent(name)
		}
		goCall := &ast.ExprStmt{X: &ast.CallExpr{Fun: rw.sel("Go"), Args: []ast.Expr{
			&ast.FuncLit{Type: &ast.FuncType{Params: &ast.FieldList{}}, Body: &ast.BlockStmt{List: []ast.Stmt{&ast.ExprStmt{X: call}}}}}}}
		return &ast.BlockStmt{List: append(pre, goCall)}
	case *ast.SendStmt:
		rw.n["send"]++
		return &ast.ExprStmt{X: &ast.CallExpr{Fun: rw.sel("Send"), Args: []ast.Expr{rw.expr(x.Chan), rw.expr(x.Value)}}}
	case *ast.ExprStmt:
		x.X = rw.expr(x.X)
	case *ast.AssignStmt:
		if len(x.Lhs) == 2 && len(x.Rhs) == 1 {
			if u, ok := isRecv(x.Rhs[0]); ok {
				rw.n["recv"]++
				x.Rhs[0] = &ast.CallExpr{Fun: rw.sel("Recv2"), Args: []ast.Expr{rw.expr(u.X)}}
				return x
			}
		}
		for i := range x.Rhs {
			x.Rhs[i] = rw.expr(x.Rhs[i])
		}
		for i := range x.Lhs {
			x.Lhs[i] = rw.expr(x.Lhs[i])
		}
	case *ast.DeclStmt:
		if gd, ok := x.Decl.(*ast.GenDecl); ok {
			for _, sp := range gd.Specs {
				if vs, ok := sp.(*ast.ValueSpec); ok {
					for i := range vs.Values {
						vs.Values[i] = rw.expr(vs.Values[i])
					}
				}
			}
		}
	case *ast.ReturnStmt:
		for i := range x.Results {
			x.Results[i] = rw.expr(x.Results[i])
		}
	case *ast.DeferStmt:
		if e, ok := rw.expr(x.Call).(*ast.CallExpr); ok {
			x.Call = e
		}
	case *ast.BlockStmt:
		rw.block(x)
	case *ast.IfStmt:
		x.Init = rw.stmt(x.Init)
		x.Cond = rw.expr(x.Cond)
		rw.block(x.Body)
		x.Else = rw.stmt(x.Else)
	case *ast.ForStmt:
		x.Init = rw.stmt(x.Init)
		x.Cond = rw.expr(x.Cond)
		x.Post = rw.stmt(x.Post)
		rw.block(x.Body)
	case *ast.RangeStmt:
		x.X = rw.expr(x.X)
		rw.block(x.Body)
	case *ast.SwitchStmt:
		x.Init = rw.stmt(x.Init)
		x.Tag = rw.expr(x.Tag)
		rw.block(x.Body)
	case *ast.TypeSwitchStmt:
		x.Init = rw.stmt(x.Init)
		x.Assign = rw.stmt(x.Assign)
		rw.block(x.Body)
	case *ast.CaseClause:
		for i := range x.List {
			x.List[i] = rw.expr(x.List[i])
		}
		for i := range x.Body {
			x.Body[i] = rw.stmt(x.Body[i])
		}
	case *ast.LabeledStmt:
		x.Stmt = rw.stmt(x.Stmt)
	case *ast.IncDecStmt:
		x.X = rw.expr(x.X)
	case *ast.SelectStmt:
		rw.errs = append(rw.errs, fmt.Sprintf("%s: select statement is not modelled", rw.fset.Position(x.Pos())))
	}
	return s
}

func (rw *rewriter) block(b *ast.BlockStmt) {
	if b == nil {
		return
	}
	for i := range b.List {
		b.List[i] = rw.stmt(b.List[i])
	}
}

func usesIdent(f *ast.File, pkg string) bool {
	found := false
	ast.Inspect(f, func(n ast.Node) bool {
		if s, ok := n.(*ast.SelectorExpr); ok {
			if id, ok := s.X.(*ast.Ident); ok && id.Name == pkg && id.Obj == nil {
				found = true
			}
		}
		return !found
	})
	return found
}

func process(path string) ([]byte, map[string]int, []string, error) {
	fset := token.NewFileSet()
	f, err := parser.ParseFile(fset, path, nil, parser.ParseComments)
	if err != nil {
		return nil, nil, nil, err
	}
	rw := &rewriter{fset: fset, file: f, n: map[string]int{}}
	// shadowing of close / runtime would break the rewrite
	ast.Inspect(f, func(n ast.Node) bool {
		switch x := n.(type) {
		case *ast.FuncDecl:
			if x.Recv == nil && (x.Name.Name == "close") {
				rw.errs = append(rw.errs, path+": package-level function named close")
			}
		case *ast.AssignStmt:
			for _, l := range x.Lhs {
				if id, ok := l.(*ast.Ident); ok && x.Tok == token.DEFINE && (id.Name == "close" || id.Name == "runtime" || id.Name == "sync" || id.Name == "atomic" || id.Name == "verifsched") {
					rw.errs = append(rw.errs, fmt.Sprintf("%s: identifier %s is shadowed", fset.Position(id.Pos()), id.Name))
				}
			}
		}
		return true
	})
	for _, d := range f.Decls {
		switch x := d.(type) {
		case *ast.FuncDecl:
			rw.block(x.Body)
		case *ast.GenDecl:
			for _, sp := range x.Specs {
				if vs, ok := sp.(*ast.ValueSpec); ok {
					for i := range vs.Values {
						vs.Values[i] = rw.expr(vs.Values[i])
					}
				}
			}
		}
	}
	// imports
	hasSync := false
	for _, im := range f.Imports {
		p, _ := strconv.Unquote(im.Path.Value)
		switch p {
		case "sync":
			if im.Name != nil && im.Name.Name != "sync" {
				rw.errs = append(rw.errs, path+": sync imported under another name")
			}
			im.Name = ast.NewIdent("sync")
			im.Path.Value = strconv.Quote(modPath + "verifsched/vsync")
			rw.n["import-sync"]++
			hasSync = true
		case "sync/atomic":
			if im.Name != nil && im.Name.Name != "atomic" {
				rw.errs = append(rw.errs, path+": sync/atomic imported under another name")
			}
			im.Name = ast.NewIdent("atomic")
			im.Path.Value = strconv.Quote(modPath + "verifsched/vatomic")
			rw.n["import-atomic"]++
			hasSync = true
		}
	}
	_ = hasSync
	total := 0
	for _, v := range rw.n {
		total += v
	}
	if total == 0 {
		return nil, rw.n, rw.errs, nil
	}
	if rw.n["numcpu"] > 0 && !usesIdent(f, "runtime") {
		// drop the now unused import
		for _, d := range f.Decls {
			gd, ok := d.(*ast.GenDecl)
			if !ok || gd.Tok != token.IMPORT {
				continue
			}
			var keep []ast.Spec
			for _, sp := range gd.Specs {
				if p, _ := strconv.Unquote(sp.(*ast.ImportSpec).Path.Value); p == "runtime" {
					continue
				}
				keep = append(keep, sp)
			}
			gd.Specs = keep
		}
	}
	if rw.needVS {
		// add the import to the first import declaration
		added := false
		for _, d := range f.Decls {
			if gd, ok := d.(*ast.GenDecl); ok && gd.Tok == token.IMPORT {
				gd.Specs = append(gd.Specs, &ast.ImportSpec{Name: ast.NewIdent("verifsched"), Path: &ast.BasicLit{Kind: token.STRING, Value: strconv.Quote(modPath + "verifsched")}})
				if !gd.Lparen.IsValid() {
					gd.Lparen = gd.Pos()
					gd.Rparen = gd.End()
				}
				added = true
				break
			}
		}
		if !added {
			gd := &ast.GenDecl{Tok: token.IMPORT, Specs: []ast.Spec{&ast.ImportSpec{Name: ast.NewIdent("verifsched"), Path: &ast.BasicLit{Kind: token.STRING, Value: strconv.Quote(modPath + "verifsched")}}}}
			f.Decls = append([]ast.Decl{gd}, f.Decls...)
		}
	}
	var buf bytes.Buffer
	if err := format.Node(&buf, fset, f); err != nil {
		return nil, rw.n, rw.errs, err
	}
	return buf.Bytes(), rw.n, rw.errs, nil
}

func main() {
	if len(os.Args) < 5 {
		fmt.Fprintln(os.Stderr, "usage: vinstr <outdir> <overlay-in> <overlay-out> <files/dirs>...")
		os.Exit(2)
	}
	outdir, ovIn, ovOut := os.Args[1], os.Args[2], os.Args[3]
	var ov struct{ Replace map[string]string }
	b, err := os.ReadFile(ovIn)
	if err != nil || json.Unmarshal(b, &ov) != nil {
		fmt.Fprintln(os.Stderr, "cannot read overlay", ovIn, err)
		os.Exit(2)
	}
	if ov.Replace == nil {
		ov.Replace = map[string]string{}
	}
	var files []string
	for _, a := range os.Args[4:] {
		p := filepath.Join(repo, a)
		st, err := os.Stat(p)
		if err != nil {
			fmt.Fprintln(os.Stderr, "vinstr:", err)
			os.Exit(2)
		}
		if st.IsDir() {
			ents, _ := os.ReadDir(p)
			for _, e := range ents {
				if strings.HasSuffix(e.Name(), ".go") && !strings.HasSuffix(e.Name(), "_test.go") {
					files = append(files, filepath.Join(p, e.Name()))
				}
			}
		} else {
			files = append(files, p)
		}
	}
	sort.Strings(files)
	failed := false
	for _, f := range files {
		src, n, errs, err := process(f)
		if err != nil {
			fmt.Fprintln(os.Stderr, "vinstr:", f, err)
			failed = true
			continue
		}
		for _, e := range errs {
			fmt.Fprintln(os.Stderr, "vinstr: unsupported:", e)
			failed = true
		}
		if src == nil {
			continue
		}
		rel, _ := filepath.Rel(repo, f)
		out := filepath.Join(outdir, rel)
		os.MkdirAll(filepath.Dir(out), 0o755)
		if old, err := os.ReadFile(out); err != nil || !bytes.Equal(old, src) {
			if err := os.WriteFile(out, src, 0o644); err != nil {
				fmt.Fprintln(os.Stderr, "vinstr:", err)
				os.Exit(2)
			}
		}
		ov.Replace[f] = out
		var keys []string
		for k := range n {
			keys = append(keys, k)
		}
		sort.Strings(keys)
		var sb strings.Builder
		for _, k := range keys {
			fmt.Fprintf(&sb, " %s=%d", k, n[k])
		}
		fmt.Printf("hooked %s:%s\n", rel, sb.String())
	}
	if failed {
		os.Exit(2)
	}
	ob, _ := json.MarshalIndent(ov, "", " ")
	if err := os.WriteFile(ovOut, ob, 0o644); err != nil {
		fmt.Fprintln(os.Stderr, "vinstr:", err)
		os.Exit(2)
	}
}
