// C19 — receiver and operands may alias in every arithmetic method
// (engine L: reflection over the method sets x all set partitions of the aliasable argument positions x operand menus).
package main

import (
	"verifh/vlib"
)

type fieldEntryRunC19 struct {
	name string
	run  func(r *vlib.Run, g string)
}
type curveEntryRunC19 struct {
	name string
	run  func(r *vlib.Run, g string)
}
type teEntryRunC19 struct {
	name string
	run  func(r *vlib.Run, g string)
}

func main() {
	r := vlib.Start("C19", "exploration")
	r.Rule("For every receiver type \u2014 Element and Vector of the 23 fields, the extension types of the 7 towers (through the overlay export) and of the 3 small-field extension packages, G1/G2 Affine and Jacobian points of the 10 curves, the three coordinate systems of the 8 twisted-Edwards packages, polynomial.Polynomial and MultiLin \u2014 the exported method set is enumerated by reflection; every method with at least one operand of the receiver's type is called under every set partition of {receiver, same-typed operands} (objects of one block are the same object; slices share their backing array), for every assignment of menu values (0, 1, -1 / max coordinates, generic, sparse; G, [k]G, -G, O, a non-normalised representative) to the blocks and two variants of the remaining operands; the result must equal (as a value / group element) the result of the same call on pairwise distinct objects with the same initial contents, the operands outside the receiver's block must be unchanged, and a panic must not depend on aliasing. The per-type table of enumerated and not-enumerated methods is in the evidence (alias_coverage). non-trivial = receiver types")
	r.Assume("object identity is the aliasing relation of the property: same pointer, or same backing array for slice receivers")
	var names []string
	bodies := map[string]func(){}
	for _, c := range fieldsRunC19 {
		c := c
		names = append(names, "field/"+c.name)
		bodies["field/"+c.name] = func() { c.run(r, "field/"+c.name) }
	}
	for _, c := range curvesRunC19 {
		c := c
		names = append(names, "curve/"+c.name)
		bodies["curve/"+c.name] = func() { c.run(r, "curve/"+c.name) }
	}
	for _, c := range tesRunC19 {
		c := c
		names = append(names, c.name)
		bodies[c.name] = func() { c.run(r, c.name) }
	}
	for k, f := range smallGroups(r) {
		names = append(names, k)
		bodies[k] = f
	}
	r.Parallel(names, func(g string) { bodies[g]() })
	r.Finish()
}
