package main

import (
	"math/big"
	"reflect"
	"sort"

	"github.com/consensys/gnark-crypto/field/babybear"
	bbext "github.com/consensys/gnark-crypto/field/babybear/extensions"
	"github.com/consensys/gnark-crypto/field/goldilocks"
	glext "github.com/consensys/gnark-crypto/field/goldilocks/extensions"
	"github.com/consensys/gnark-crypto/field/koalabear"
	kbext "github.com/consensys/gnark-crypto/field/koalabear/extensions"

	"verifh/vlib"
)

func extSamples(p any, mod *big.Int) []any {
	dim := len(vlib.Flatten(p))
	var sv []any
	for vi := 0; vi < 4; vi++ {
		c := make([]*big.Int, dim)
		for i := range c {
			switch vi {
			case 0:
				c[i] = big.NewInt(0)
			case 1:
				c[i] = big.NewInt(0)
				if i == 0 {
					c[i] = big.NewInt(1)
				}
			case 2:
				c[i] = new(big.Int).Exp(big.NewInt(int64(5+i)), big.NewInt(61), mod)
			default:
				c[i] = new(big.Int).Sub(mod, big.NewInt(int64(1+i%2)))
			}
		}
		v := reflect.New(reflect.TypeOf(p).Elem())
		vlib.Unflatten(v.Interface(), c)
		sv = append(sv, v.Interface())
	}
	return sv
}

func smallGroups(r *vlib.Run) map[string]func() {
	m := map[string]func(){}
	run := func(g, name string, mod *big.Int, base any, types map[string]any) {
		others := map[reflect.Type][]any{reflect.TypeOf(base): {base}}
		samples := map[string][]any{}
		for n, p := range types {
			samples[n] = extSamples(p, mod)
			others[reflect.TypeOf(p)] = []any{samples[n][2], samples[n][3]}
		}
		var tnames []string
		for n := range types {
			tnames = append(tnames, n)
		}
		sort.Strings(tnames)
		for _, n := range tnames {
			r.Sample(vlib.CheckAlias(r, g, &vlib.AliasSpec{Prefix: "alias/" + name + "/extensions." + n, Values: samples[n], Others: others, Skip: map[string]bool{"Sqrt": true}}))
			// Sqrt is only defined on squares: its own menu of squares and fourth powers
			if _, ok := reflect.TypeOf(samples[n][0]).MethodByName("Sqrt"); ok {
				if sq := vlib.SquareSamples(samples[n]); sq != nil {
					r.Sample(vlib.CheckAlias(r, g, &vlib.AliasSpec{Prefix: "alias/" + name + "/extensions." + n + "(squares)", Values: sq, Others: others, Only: map[string]bool{"Sqrt": true}}))
				}
			}
		}
	}
	m["ext/koalabear"] = func() {
		var e koalabear.Element
		e.SetUint64(12345)
		run("ext/koalabear", "koalabear", koalabear.Modulus(), &e, map[string]any{"E2": new(kbext.E2), "E4": new(kbext.E4)})
	}
	m["ext/babybear"] = func() {
		var e babybear.Element
		e.SetUint64(12345)
		run("ext/babybear", "babybear", babybear.Modulus(), &e, map[string]any{"E2": new(bbext.E2), "E4": new(bbext.E4)})
	}
	m["ext/goldilocks"] = func() {
		var e goldilocks.Element
		e.SetUint64(12345)
		run("ext/goldilocks", "goldilocks", goldilocks.Modulus(), &e, map[string]any{"E2": new(glext.E2)})
	}
	return m
}
