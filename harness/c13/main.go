// C13 — hash-to-field / hash-to-curve (engine L; RFC 9380 model of expand_message_xmd).
package main

import (
	"bytes"
	"encoding/hex"
	"fmt"

	gh "github.com/consensys/gnark-crypto/field/hash"

	"verifh/vlib"
)

type fieldEntryRunC13 struct {
	name string
	run  func(r *vlib.Run, g string)
}
type curveEntryRunC13 struct {
	name string
	run  func(r *vlib.Run, g string)
}

func xmd(r *vlib.Run, g string) {
	n := 0
	lens := []int{}
	for l := 0; l <= 65; l++ {
		lens = append(lens, l)
	}
	lens = append(lens, 95, 96, 97, 255, 256, 8159, 8160, 8161, 65535, 65536)
	msgs := [][]byte{{}, {1}, bytes.Repeat([]byte{2}, 63), bytes.Repeat([]byte{3}, 64), bytes.Repeat([]byte{4}, 65), bytes.Repeat([]byte{5}, 200)}
	dsts := [][]byte{{}, {9}, bytes.Repeat([]byte{8}, 16), bytes.Repeat([]byte{7}, 255), bytes.Repeat([]byte{6}, 256)}
	for _, l := range lens {
		for mi, m := range msgs {
			for di, d := range dsts {
				if l > 65 && mi > 1 && di > 1 {
					continue
				}
				id := fmt.Sprintf("len=%d,len(msg)=%d,len(dst)=%d", l, len(m), len(d))
				want, werr := vlib.XMD(m, d, l)
				var got []byte
				var err error
				if p := vlib.Guard(func() { got, err = gh.ExpandMsgXmd(append([]byte{}, m...), append([]byte{}, d...), l) }); p != "" {
					cls := "panic"
					if l < 32 {
						cls = "panic/lenInBytes-below-32"
					}
					r.FailIn(g, "xmd/"+cls, id, "ExpandMsgXmd("+id+") panicked: "+p, nil)
					continue
				}
				n++
				if (err == nil) != (werr == nil) {
					r.FailIn(g, "xmd/error-mismatch", id, fmt.Sprintf("err=%v model=%v", err, werr), nil)
				} else if err == nil && !bytes.Equal(got, want) {
					r.FailIn(g, "xmd/wrong-output", id, "output differs from the RFC 9380 construction", nil)
				}
				r.Tag(fmt.Sprintf("xmd/l%d/m%d/d%d", l, mi, di))
			}
		}
	}
	// RFC 9380 appendix K.1 vectors (provenance of the model)
	for _, v := range [][2]string{{"", "68a985b87eb6b46952128911f2a4412bbc302a9d759667f87f7a21d803f07235"}, {"abc", "d8ccab23b5985ccea865c6c97b6e5b8350e794e603b4b97902f53a8a0d605615"},
		{"abcdef0123456789", "eff31487c770a893cfb36f912fbfcbff40d5661771ca4b2cb4eafe524333f5c1"}} {
		w, _ := hex.DecodeString(v[1])
		m, _ := vlib.XMD([]byte(v[0]), []byte("QUUX-V01-CS02-with-expander-SHA256-128"), 32)
		if !bytes.Equal(m, w) {
			r.Harness("the XMD reference model does not reproduce RFC 9380 K.1")
		}
		l, err := gh.ExpandMsgXmd([]byte(v[0]), []byte("QUUX-V01-CS02-with-expander-SHA256-128"), 32)
		n++
		if err != nil || !bytes.Equal(l, w) {
			r.FailIn(g, "xmd/rfc-vector", v[0], "ExpandMsgXmd does not reproduce the RFC 9380 K.1 vector", nil)
		}
	}
	r.Add(n)
}

func main() {
	r := vlib.Start("C13", "exploration")
	r.Rule("ExpandMsgXmd for every output length 0..65 and boundary lengths up to 65536 x 6 message lengths x tag lengths {0,1,16,255,256}; <field>.Hash for 23 fields x counts {0,1,2,3,17,max,max+1} x messages x tags against an RFC 9380 transcription (errors exactly for ell>255 or |dst|>255; never a panic); hash.Hash wrappers under write splits; for every curve/group with a map: u over {0,+-1,+-2,small ints, last-coordinate and mixed tower patterns, generic, SSWU exceptional roots u^2=-1/Z} -> on (isogenous) curve, sgn0 convention, MapTo in the subgroup by the model [r]P=O; Encode = MapTo(hash_to_field), HashTo = MapTo(u0)+MapTo(u1); RFC 9380 BLS12-381 G1/G2 RO/NU vectors; non-trivial = distinct input-class tags")
	r.Assume("SvdW exceptional inputs (roots of 1 +- c1 u^2) are not synthesised; SSWU exceptional inputs are")
	names := []string{"xmd"}
	bodies := map[string]func(){"xmd": func() { xmd(r, "xmd") }}
	for _, f := range fieldsRunC13 {
		f := f
		names = append(names, "field/"+f.name)
		bodies["field/"+f.name] = func() { f.run(r, "field/"+f.name) }
	}
	for _, c := range curvesRunC13 {
		c := c
		names = append(names, "curve/"+c.name)
		bodies["curve/"+c.name] = func() { c.run(r, "curve/"+c.name) }
	}
	names = append(names, "race")
	bodies["race"] = func() { r.RunRacePass("C13") }
	r.Parallel(names, func(g string) { bodies[g]() })
	r.Finish()
}
