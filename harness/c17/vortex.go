package main

import (
	"fmt"

	"github.com/consensys/gnark-crypto/field/koalabear"
	fext "github.com/consensys/gnark-crypto/field/koalabear/extensions"
	"github.com/consensys/gnark-crypto/field/koalabear/sis"
	"github.com/consensys/gnark-crypto/field/koalabear/vortex"

	"verifh/vlib"
)

func kb(v uint64) koalabear.Element { var e koalabear.Element; e.SetUint64(v); return e }

func e4(a, b, c, d uint64) fext.E4 {
	return fext.E4{B0: fext.E2{A0: kb(a), A1: kb(b)}, B1: fext.E2{A0: kb(c), A1: kb(d)}}
}

type vortexInst struct {
	params *vortex.Params
	in     vortex.VerifierInput
}

func mkVortex(numCol, numRow, rate int, cols []int, seed uint64) (*vortexInst, error) {
	m := make([][]koalabear.Element, numRow)
	x := e4(seed+11, seed+23, seed+37, seed+41)
	alpha := e4(seed+101, seed+211, seed+307, seed+401)
	ys := make([]fext.E4, numRow)
	for i := range m {
		m[i] = make([]koalabear.Element, numCol)
		for j := range m[i] {
			m[i][j] = kb(seed*1000003 + uint64(i*131+j*17+5))
		}
		var err error
		if ys[i], err = vortex.EvalBasePolyLagrange(m[i], x); err != nil {
			return nil, err
		}
	}
	sp, err := sis.NewRSis(0, 9, 16, numRow)
	if err != nil {
		return nil, err
	}
	params, err := vortex.NewParams(numCol, numRow, sp, rate, len(cols))
	if err != nil {
		return nil, err
	}
	ps, err := vortex.Commit(params, m)
	if err != nil {
		return nil, err
	}
	ps.OpenLinComb(alpha)
	proof, err := ps.OpenColumns(cols)
	if err != nil {
		return nil, err
	}
	return &vortexInst{params, vortex.VerifierInput{Proof: proof, MerkleRoot: ps.GetCommitment(), ClaimedValues: ys, EvaluationPoint: x, Alpha: alpha, SelectedColumns: append([]int{}, cols...)}}, nil
}

func runVortex(r *vlib.Run, g string) {
	key := func(cls string) string { return "argsys/vortex/" + cls }
	n := 0
	cases := []struct {
		cols, rows, rate int
		sel              []int
	}{{16, 8, 2, []int{0, 1, 2, 3}}, {4, 2, 2, []int{0, 7}}, {8, 3, 4, []int{5, 31, 0}}, {2, 2, 8, []int{15}}, {4, 5, 4, []int{0, 9, 15}}}
	if r.Quick() {
		cases = cases[:4]
	}
	for ci, c := range cases {
		name := fmt.Sprintf("%dx%d,rate=%d,cols=%v", c.rows, c.cols, c.rate, c.sel)
		var inst, donor *vortexInst
		var e1, e2 error
		if pn := vlib.Guard(func() { inst, e1 = mkVortex(c.cols, c.rows, c.rate, c.sel, uint64(3+ci)); donor, e2 = mkVortex(c.cols, c.rows, c.rate, c.sel, uint64(50+ci)) }); pn != "" || e1 != nil || e2 != nil {
			r.FailIn(g, key("prover-error"), name, fmt.Sprint(e1, e2, pn), nil)
			continue
		}
		n++
		if err := inst.params.Verify(inst.in); err != nil {
			r.FailIn(g, key("rejects-honest-proof"), name, "vortex Verify rejects an honest opening ("+name+"): "+err.Error(), nil)
			continue
		}
		// every single-component substitution of the verifier input (proof, root, claims, point, coin, positions)
		n += vlib.RejectAll(r, g, key("Verify"), name, &inst.in, &donor.in, 4, func() error { return inst.params.Verify(inst.in) })
		// targeted forgery preserving all but the column-vs-combination check: shift UAlpha by the constant
		// codeword delta (a Reed-Solomon codeword) and the first claimed value by the same delta
		{
			delta := e4(5, 0, 0, 0)
			ua := inst.in.Proof.UAlpha
			saveU := append([]fext.E4{}, ua...)
			saveY := inst.in.ClaimedValues[0]
			for j := range ua {
				ua[j].Add(&ua[j], &delta)
			}
			inst.in.ClaimedValues[0].Add(&inst.in.ClaimedValues[0], &delta)
			var err error
			pn := vlib.Guard(func() { err = inst.params.Verify(inst.in) })
			n++
			copy(ua, saveU)
			inst.in.ClaimedValues[0] = saveY
			if pn != "" {
				r.FailIn(g, key("panic-on-forged-proof"), name+": constant shift", pn, nil)
			} else if err == nil {
				r.FailIn(g, key("accepts-forged-proof/false-claim-with-UAlpha-shifted-by-a-codeword"), name, "vortex Verify accepts a false claimed value when UAlpha is shifted by the same constant codeword ("+name+"): the opened columns are never compared with UAlpha", nil)
			}
		}
		// targeted forgery against the (implicit) requirement that UAlpha has exactly the code-word length: keep the honest
		// word in the first positions (the Reed-Solomon test and the column tests read those), append as many free
		// positions, and choose the last one so that the interpolant over the doubled domain takes the value a FALSE
		// claim needs at the evaluation point
		{
			ua0 := inst.in.Proof.UAlpha
			N := len(ua0)
			ext := make([]fext.E4, 2*N)
			copy(ext, ua0)
			unit := make([]fext.E4, 2*N)
			unit[2*N-1].SetOne()
			saveY := inst.in.ClaimedValues[0]
			one := e4(1, 0, 0, 0)
			inst.in.ClaimedValues[0].Add(&inst.in.ClaimedValues[0], &one)
			target := vortex.EvalFextPolyHorner(inst.in.ClaimedValues, inst.in.Alpha)
			e0, err0 := vortex.EvalFextPolyLagrange(ext, inst.in.EvaluationPoint)
			e1, err1 := vortex.EvalFextPolyLagrange(unit, inst.in.EvaluationPoint)
			if err0 == nil && err1 == nil && !e1.IsZero() {
				var t fext.E4
				t.Sub(&target, &e0).Div(&t, &e1)
				ext[2*N-1] = t
				inst.in.Proof.UAlpha = ext
				var err error
				pn := vlib.Guard(func() { err = inst.params.Verify(inst.in) })
				n++
				if pn == "" && err == nil {
					r.FailIn(g, key("accepts-forged-proof/false-claim-with-UAlpha-of-double-length"), name, "vortex Verify accepts a false claimed value when UAlpha carries twice as many entries as a code word ("+name+"): only the first half is tested for code-word membership, all of it is interpolated", nil)
				}
				inst.in.Proof.UAlpha = ua0
			}
			inst.in.ClaimedValues[0] = saveY
		}
		// targeted forgery preserving all but the Reed-Solomon membership test, one per extension coordinate: perturb one
		// coordinate of UAlpha at a position that is not opened and move the first claimed value by the induced change of
		// UAlpha(x), so that the claim/combination check and all column checks still hold
		{
			opened := map[int]bool{}
			for _, sc := range inst.in.SelectedColumns {
				opened[sc] = true
			}
			k := -1
			for j := range inst.in.Proof.UAlpha {
				if !opened[j] {
					k = j
					break
				}
			}
			if k >= 0 {
				base, err0 := vortex.EvalFextPolyLagrange(inst.in.Proof.UAlpha, inst.in.EvaluationPoint)
				for ci, delta := range []fext.E4{e4(3, 0, 0, 0), e4(0, 3, 0, 0), e4(0, 0, 3, 0), e4(0, 0, 0, 3)} {
					if err0 != nil {
						break
					}
					ua := inst.in.Proof.UAlpha
					saveU, saveY := ua[k], inst.in.ClaimedValues[0]
					ua[k].Add(&ua[k], &delta)
					now, err1 := vortex.EvalFextPolyLagrange(ua, inst.in.EvaluationPoint)
					var diff fext.E4
					diff.Sub(&now, &base)
					inst.in.ClaimedValues[0].Add(&inst.in.ClaimedValues[0], &diff)
					var err error
					pn := vlib.Guard(func() { err = inst.params.Verify(inst.in) })
					n++
					ua[k], inst.in.ClaimedValues[0] = saveU, saveY
					cn := []string{"B0.A0", "B0.A1", "B1.A0", "B1.A1"}[ci]
					if err1 != nil {
						continue
					}
					if pn != "" {
						r.FailIn(g, key("panic-on-forged-proof"), name+": non-codeword in "+cn, pn, nil)
					} else if err == nil {
						r.FailIn(g, key("accepts-forged-proof/UAlpha-not-a-codeword-in-coordinate-"+cn), name, "vortex Verify accepts a false claimed value with a UAlpha that is not a Reed-Solomon codeword in coordinate "+cn+" ("+name+")", nil)
					}
				}
			}
		}
		// an opened column replaced together with a consistent Merkle path of another commitment is caught by the root: covered by donor substitutions
		r.Tag("argsys/vortex/" + name)
	}
	r.Add(n)
	r.Sample(map[string]any{"scheme": "vortex/koalabear", "verifier_calls": n})
}
