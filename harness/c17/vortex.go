package main

import (
	"fmt"
	"math/big"

	"github.com/consensys/gnark-crypto/field/koalabear"
	fext "github.com/consensys/gnark-crypto/field/koalabear/extensions"
	kbfft "github.com/consensys/gnark-crypto/field/koalabear/fft"
	"github.com/consensys/gnark-crypto/field/koalabear/sis"
	"github.com/consensys/gnark-crypto/field/koalabear/vortex"

	"verifh/vlib"
)

func kb(v uint64) koalabear.Element { var e koalabear.Element; e.SetUint64(v); return e }

func e4(a, b, c, d uint64) fext.E4 {
	return fext.E4{B0: fext.E2{A0: kb(a), A1: kb(b)}, B1: fext.E2{A0: kb(c), A1: kb(d)}}
}

type vortexInst struct {
	params *vortex.Params
	in     vortex.VerifierInput
}

// naiveLagrange: sum_j row[j] prod_{k != j} (x - g^k)/(g^j - g^k), the definition (independent of the package's
// barycentric routines and of their "x is a node" shortcut).
func naiveLagrange(row []koalabear.Element, x fext.E4) fext.E4 {
	n := len(row)
	g, _ := kbfft.Generator(uint64(n))
	nodes := make([]koalabear.Element, n)
	nodes[0].SetOne()
	for i := 1; i < n; i++ {
		nodes[i].Mul(&nodes[i-1], &g)
	}
	var res fext.E4
	for j := 0; j < n; j++ {
		var num fext.E4
		num.SetOne()
		var den koalabear.Element
		den.SetOne()
		for k := 0; k < n; k++ {
			if k == j {
				continue
			}
			t := x
			t.B0.A0.Sub(&t.B0.A0, &nodes[k])
			num.Mul(&num, &t)
			var d koalabear.Element
			d.Sub(&nodes[j], &nodes[k])
			den.Mul(&den, &d)
		}
		den.Inverse(&den)
		den.Mul(&den, &row[j])
		num.MulByElement(&num, &den)
		res.Add(&res, &num)
	}
	return res
}

// naiveLagrangeExt: the same for extension-valued nodes values.
func naiveLagrangeExt(vals []fext.E4, x fext.E4) fext.E4 {
	var res fext.E4
	for c := 0; c < 4; c++ {
		row := make([]koalabear.Element, len(vals))
		for j := range vals {
			row[j] = *[]*koalabear.Element{&vals[j].B0.A0, &vals[j].B0.A1, &vals[j].B1.A0, &vals[j].B1.A1}[c]
		}
		t := naiveLagrange(row, x)
		var basis fext.E4
		*[]*koalabear.Element{&basis.B0.A0, &basis.B0.A1, &basis.B1.A0, &basis.B1.A1}[c] = kb(1)
		t.Mul(&t, &basis)
		res.Add(&res, &t)
	}
	return res
}

func mkVortex(numCol, numRow, rate int, cols []int, seed uint64) (*vortexInst, error) {
	return mkVortexAt(numCol, numRow, rate, cols, seed, e4(seed+11, seed+23, seed+37, seed+41))
}

func mkVortexAt(numCol, numRow, rate int, cols []int, seed uint64, x fext.E4) (*vortexInst, error) {
	m := make([][]koalabear.Element, numRow)
	alpha := e4(seed+101, seed+211, seed+307, seed+401)
	ys := make([]fext.E4, numRow)
	for i := range m {
		m[i] = make([]koalabear.Element, numCol)
		for j := range m[i] {
			m[i][j] = kb(seed*1000003 + uint64(i*131+j*17+5))
		}
		var err error
		if ys[i], err = vortex.EvalBasePolyLagrange(m[i], x); err != nil {
			return nil, err
		}
	}
	sp, err := sis.NewRSis(0, 9, 16, numRow)
	if err != nil {
		return nil, err
	}
	params, err := vortex.NewParams(numCol, numRow, sp, rate, len(cols))
	if err != nil {
		return nil, err
	}
	ps, err := vortex.Commit(params, m)
	if err != nil {
		return nil, err
	}
	ps.OpenLinComb(alpha)
	proof, err := ps.OpenColumns(cols)
	if err != nil {
		return nil, err
	}
	return &vortexInst{params, vortex.VerifierInput{Proof: proof, MerkleRoot: ps.GetCommitment(), ClaimedValues: ys, EvaluationPoint: x, Alpha: alpha, SelectedColumns: append([]int{}, cols...)}}, nil
}

func runVortex(r *vlib.Run, g string) {
	key := func(cls string) string { return "argsys/vortex/" + cls }
	n := 0
	cases := []struct {
		cols, rows, rate int
		sel              []int
	}{{16, 8, 2, []int{0, 1, 2, 3}}, {4, 2, 2, []int{0, 7}}, {8, 3, 4, []int{5, 31, 0}}, {2, 2, 8, []int{15}}, {4, 5, 4, []int{0, 9, 15}}}
	if r.Quick() {
		cases = cases[:4]
	}
	for ci, c := range cases {
		name := fmt.Sprintf("%dx%d,rate=%d,cols=%v", c.rows, c.cols, c.rate, c.sel)
		var inst, donor *vortexInst
		var e1, e2 error
		if pn := vlib.Guard(func() {
			inst, e1 = mkVortex(c.cols, c.rows, c.rate, c.sel, uint64(3+ci))
			donor, e2 = mkVortex(c.cols, c.rows, c.rate, c.sel, uint64(50+ci))
		}); pn != "" || e1 != nil || e2 != nil {
			r.FailIn(g, key("prover-error"), name, fmt.Sprint(e1, e2, pn), nil)
			continue
		}
		n++
		if err := inst.params.Verify(inst.in); err != nil {
			r.FailIn(g, key("rejects-honest-proof"), name, "vortex Verify rejects an honest opening ("+name+"): "+err.Error(), nil)
			continue
		}
		// every single-component substitution of the verifier input (proof, root, claims, point, coin, positions)
		n += vlib.RejectAll(r, g, key("Verify"), name, &inst.in, &donor.in, 4, func() error { return inst.params.Verify(inst.in) })
		// targeted forgery preserving all but the column-vs-combination check: shift UAlpha by the constant
		// codeword delta (a Reed-Solomon codeword) and the first claimed value by the same delta
		{
			delta := e4(5, 0, 0, 0)
			ua := inst.in.Proof.UAlpha
			saveU := append([]fext.E4{}, ua...)
			saveY := inst.in.ClaimedValues[0]
			for j := range ua {
				ua[j].Add(&ua[j], &delta)
			}
			inst.in.ClaimedValues[0].Add(&inst.in.ClaimedValues[0], &delta)
			var err error
			pn := vlib.Guard(func() { err = inst.params.Verify(inst.in) })
			n++
			// the same forgery with the lists of opened columns and of their Merkle proofs cut to the same shorter length
			// (0 and 1): the verifier decides which columns it checks (its selected positions), not the prover
			for _, keep := range []int{0, 1} {
				oc, mp := inst.in.Proof.OpenedColumns, inst.in.Proof.MerkleProofOpenedColumns
				if keep > len(oc) || keep > len(mp) {
					continue
				}
				inst.in.Proof.OpenedColumns, inst.in.Proof.MerkleProofOpenedColumns = oc[:keep], mp[:keep]
				var e2 error
				pn2 := vlib.Guard(func() { e2 = inst.params.Verify(inst.in) })
				n++
				inst.in.Proof.OpenedColumns, inst.in.Proof.MerkleProofOpenedColumns = oc, mp
				if pn2 == "" && e2 == nil {
					r.FailIn(g, key("accepts-forged-proof/false-claim-with-fewer-opened-columns-than-selected"), fmt.Sprintf("%s: %d of %d columns opened", name, keep, len(oc)), fmt.Sprintf("vortex Verify accepts a false claimed value (UAlpha shifted by a codeword) when the proof opens only %d of the %d selected columns (%s)", keep, len(oc), name), nil)
				}
			}
			copy(ua, saveU)
			inst.in.ClaimedValues[0] = saveY
			if pn != "" {
				r.FailIn(g, key("panic-on-forged-proof"), name+": constant shift", pn, nil)
			} else if err == nil {
				r.FailIn(g, key("accepts-forged-proof/false-claim-with-UAlpha-shifted-by-a-codeword"), name, "vortex Verify accepts a false claimed value when UAlpha is shifted by the same constant codeword ("+name+"): the opened columns are never compared with UAlpha", nil)
			}
		}
		// targeted forgery against the (implicit) requirement that UAlpha has exactly the code-word length: keep the honest
		// word in the first positions (the Reed-Solomon test and the column tests read those), append as many free
		// positions, and choose the last one so that the interpolant over the doubled domain takes the value a FALSE
		// claim needs at the evaluation point
		{
			ua0 := inst.in.Proof.UAlpha
			N := len(ua0)
			ext := make([]fext.E4, 2*N)
			copy(ext, ua0)
			unit := make([]fext.E4, 2*N)
			unit[2*N-1].SetOne()
			saveY := inst.in.ClaimedValues[0]
			one := e4(1, 0, 0, 0)
			inst.in.ClaimedValues[0].Add(&inst.in.ClaimedValues[0], &one)
			target := vortex.EvalFextPolyHorner(inst.in.ClaimedValues, inst.in.Alpha)
			e0, err0 := vortex.EvalFextPolyLagrange(ext, inst.in.EvaluationPoint)
			e1, err1 := vortex.EvalFextPolyLagrange(unit, inst.in.EvaluationPoint)
			if err0 == nil && err1 == nil && !e1.IsZero() {
				var t fext.E4
				t.Sub(&target, &e0).Div(&t, &e1)
				ext[2*N-1] = t
				inst.in.Proof.UAlpha = ext
				var err error
				pn := vlib.Guard(func() { err = inst.params.Verify(inst.in) })
				n++
				if pn == "" && err == nil {
					r.FailIn(g, key("accepts-forged-proof/false-claim-with-UAlpha-of-double-length"), name, "vortex Verify accepts a false claimed value when UAlpha carries twice as many entries as a code word ("+name+"): only the first half is tested for code-word membership, all of it is interpolated", nil)
				}
				inst.in.Proof.UAlpha = ua0
			}
			inst.in.ClaimedValues[0] = saveY
		}
		// targeted forgery preserving all but the Reed-Solomon membership test, one per extension coordinate: perturb one
		// coordinate of UAlpha at a position that is not opened and move the first claimed value by the induced change of
		// UAlpha(x), so that the claim/combination check and all column checks still hold
		{
			opened := map[int]bool{}
			for _, sc := range inst.in.SelectedColumns {
				opened[sc] = true
			}
			k := -1
			for j := range inst.in.Proof.UAlpha {
				if !opened[j] {
					k = j
					break
				}
			}
			if k >= 0 {
				base, err0 := vortex.EvalFextPolyLagrange(inst.in.Proof.UAlpha, inst.in.EvaluationPoint)
				for ci, delta := range []fext.E4{e4(3, 0, 0, 0), e4(0, 3, 0, 0), e4(0, 0, 3, 0), e4(0, 0, 0, 3)} {
					if err0 != nil {
						break
					}
					ua := inst.in.Proof.UAlpha
					saveU, saveY := ua[k], inst.in.ClaimedValues[0]
					ua[k].Add(&ua[k], &delta)
					now, err1 := vortex.EvalFextPolyLagrange(ua, inst.in.EvaluationPoint)
					var diff fext.E4
					diff.Sub(&now, &base)
					inst.in.ClaimedValues[0].Add(&inst.in.ClaimedValues[0], &diff)
					var err error
					pn := vlib.Guard(func() { err = inst.params.Verify(inst.in) })
					n++
					ua[k], inst.in.ClaimedValues[0] = saveU, saveY
					cn := []string{"B0.A0", "B0.A1", "B1.A0", "B1.A1"}[ci]
					if err1 != nil {
						continue
					}
					if pn != "" {
						r.FailIn(g, key("panic-on-forged-proof"), name+": non-codeword in "+cn, pn, nil)
					} else if err == nil {
						r.FailIn(g, key("accepts-forged-proof/UAlpha-not-a-codeword-in-coordinate-"+cn), name, "vortex Verify accepts a false claimed value with a UAlpha that is not a Reed-Solomon codeword in coordinate "+cn+" ("+name+")", nil)
					}
				}
			}
		}
		// structured evaluation points: the nodes of the row domain and of the code-word domain, and the points that
		// agree with a node in some but not all extension coordinates (the evaluation routines special-case nodes). The
		// claimed values come from the definition of the interpolant; the honest opening must verify, a false claim must not
		{
			N := inst.params.SizeCodeWord()
			gN, _ := kbfft.Generator(uint64(N))
			var pts []fext.E4
			var names []string
			for _, i := range []int{0, 1, N / 2, N - 1} {
				var w koalabear.Element
				w.Exp(gN, big.NewInt(int64(i)))
				for _, tail := range [][3]uint64{{0, 0, 0}, {1, 2, 3}, {1, 0, 0}, {0, 1, 0}, {0, 0, 1}} {
					pts = append(pts, fext.E4{B0: fext.E2{A0: w, A1: kb(tail[0])}, B1: fext.E2{A0: kb(tail[1]), A1: kb(tail[2])}})
					names = append(names, fmt.Sprintf("x=(g^%d,%d,%d,%d) with g of order %d", i, tail[0], tail[1], tail[2], N))
				}
			}
			for pi, x := range pts {
				var at *vortexInst
				var err error
				if pn := vlib.Guard(func() { at, err = mkVortexAt(c.cols, c.rows, c.rate, c.sel, uint64(3+ci), x) }); pn != "" || err != nil {
					r.FailIn(g, key("prover-error"), name+" "+names[pi], fmt.Sprint(err, pn), nil)
					continue
				}
				// claims from the definition
				for i := 0; i < c.rows; i++ {
					row := make([]koalabear.Element, c.cols)
					for j := range row {
						row[j] = kb(uint64(3+ci)*1000003 + uint64(i*131+j*17+5))
					}
					want := naiveLagrange(row, x)
					n++
					if !want.Equal(&at.in.ClaimedValues[i]) {
						r.FailIn(g, key("EvalBasePolyLagrange-wrong"), name+" "+names[pi], "vortex EvalBasePolyLagrange differs from the interpolant's definition at "+names[pi], nil)
					}
					at.in.ClaimedValues[i] = want
				}
				{
					want := naiveLagrangeExt(at.in.Proof.UAlpha, x)
					got, err := vortex.EvalFextPolyLagrange(at.in.Proof.UAlpha, x)
					n++
					if err != nil || !got.Equal(&want) {
						r.FailIn(g, key("EvalFextPolyLagrange-wrong"), name+" "+names[pi], fmt.Sprintf("vortex EvalFextPolyLagrange differs from the interpolant's definition at %s (err=%v)", names[pi], err), nil)
					}
				}
				pn := vlib.Guard(func() { err = at.params.Verify(at.in) })
				n++
				if pn != "" || err != nil {
					r.FailIn(g, key("rejects-honest-proof"), name+" "+names[pi], fmt.Sprintf("vortex Verify rejects an honest opening at %s (%s): %v %s", names[pi], name, err, pn), nil)
					continue
				}
				for k := 0; k < c.rows; k += max(1, c.rows-1) {
					save := at.in.ClaimedValues[k]
					one := e4(1, 0, 0, 0)
					at.in.ClaimedValues[k].Add(&at.in.ClaimedValues[k], &one)
					pn := vlib.Guard(func() { err = at.params.Verify(at.in) })
					n++
					at.in.ClaimedValues[k] = save
					if pn == "" && err == nil {
						r.FailIn(g, key("accepts-forged-proof/false-claim-at-structured-point"), name+" "+names[pi], "vortex Verify accepts a false claimed value at "+names[pi]+" ("+name+")", nil)
					}
				}
				// the claim the node shortcut would produce: UAlpha read at one position instead of evaluated
				for pos := 0; pos < N; pos += max(1, N/4) {
					target := at.in.Proof.UAlpha[pos]
					honest := vortex.EvalFextPolyHorner(at.in.ClaimedValues, at.in.Alpha)
					if target.Equal(&honest) {
						continue
					}
					save := at.in.ClaimedValues[0]
					var d fext.E4
					d.Sub(&target, &honest)
					at.in.ClaimedValues[0].Add(&at.in.ClaimedValues[0], &d)
					pn := vlib.Guard(func() { err = at.params.Verify(at.in) })
					n++
					at.in.ClaimedValues[0] = save
					if pn == "" && err == nil {
						r.FailIn(g, key("accepts-forged-proof/claim-matching-one-UAlpha-entry"), name+" "+names[pi], fmt.Sprintf("vortex Verify accepts a false claim chosen so that the combination equals UAlpha[%d] at %s (%s)", pos, names[pi], name), nil)
					}
				}
			}
		}
		// an opened column replaced together with a consistent Merkle path of another commitment is caught by the root: covered by donor substitutions
		r.Tag("argsys/vortex/" + name)
	}
	r.Add(n)
	r.Sample(map[string]any{"scheme": "vortex/koalabear", "verifier_calls": n})
}
