// C17 — argument-system verifiers accept honest proofs and reject well-formed forgeries
// (engine L: exhaustive single-component substitution of every proof leaf + targeted forgeries + known-log exactness).
package main

import (
	"verifh/vlib"
)

type curveEntryRunC17 struct {
	name string
	run  func(r *vlib.Run, g string)
}

func main() {
	r := vlib.Start("C17", "exploration")
	r.Rule("Per pairing curve (7): Pedersen \u2014 every (committed, proved) value pair over a scalar alphabet with known basis logs: Verify accepts iff the exponents agree; BatchVerifyMultiVk / BatchProve with injected errors accept iff e0 + rho e1 = 0; substitutions of commitment / proof. SHPLONK (5 shapes: 1..3 polynomials, 1..3 points, shared point, constant polynomial) and fflonk (3 shapes): honest proofs accepted, then EVERY single-component substitution of every leaf of (proof, digests, points) \u2014 field elements: zero, +1, value from another honest proof; group elements: infinity, negated, doubled, from another proof; same-shape swaps \u2014 must be rejected, other transcript data rejected. Permutation (sizes 2, 4, 8) and lookup arguments (vector, tables): honest accepted, all leaf substitutions of the proof objects rejected, false statements (non-permutation, row not in table) rejected. FRI (degree < 2, 8, 32): proximity proof accepted, all leaf substitutions rejected (rounds, Merkle paths, roots, evaluations, ID); openings at every position (every 7th for the largest) accepted, substitutions rejected, wrong position / other commitment rejected. Setup ceremony: UpdateProof.Verify on (G1, G2, []G1) updates with all substitutions of proof, next values, challenge bytes and tag; SameRatioMany on sequences with known logs: 9 multi-slice shapes + every length-3 G1 sequence against length-2/3 G2 sequences over log alphabets, accept iff the documented identity a_ij b_k,l+1 = a_i,j+1 b_kl holds. Vortex (koalabear; 4..5 shapes of rows x columns x rate x selected columns): honest accepted; every leaf substitution of the verifier input (UAlpha, opened columns, Merkle paths, root, claimed values, evaluation point, coin, positions) rejected; targeted forgery UAlpha + constant codeword with ClaimedValues[0] + constant rejected. non-trivial = (curve, scheme) tags")
	r.Assume("a random-looking collision (hash, random linear combination) has probability about 2^-250 and is not modelled; substitutions keep the proof object well-formed (same shape)")
	var names []string
	bodies := map[string]func(){}
	for _, c := range curvesRunC17 {
		c := c
		names = append(names, c.name)
		bodies[c.name] = func() { c.run(r, c.name) }
	}
	names = append(names, "vortex/koalabear")
	bodies["vortex/koalabear"] = func() { runVortex(r, "vortex/koalabear") }
	r.Parallel(names, func(g string) { bodies[g]() })
	r.Finish()
}
