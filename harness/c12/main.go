// C12 — EdDSA and ECDSA: every honest signature verifies, nothing else does
// (engine L: candidate triples against the textbook equation in the reference model; engine H: call histories on one hasher).
package main

import (
	t_bls12_381 "verifh/gen/te/t_bls12_381"
	"verifh/vlib"
)

type teEntryRunC12 struct {
	name string
	run  func(r *vlib.Run, g string)
}

type curveEntryRunC12E struct {
	name string
	run  func(r *vlib.Run, g string)
}

func main() {
	r := vlib.Start("C12", "model_checking")
	r.Rule("EdDSA (7 twisted-Edwards companions + the bandersnatch eddsa package, which is an instance over bls12-381/twistededwards): 4 keys from deterministic seeds (A = [scalar]B in the reference model, key / signature byte round trips with consumed counts, every short and longer buffer), messages of 8 lengths x {sha256, sha512, MiMC}: Sign is deterministic, R = [blake2b(randSrc||msg)]B and S = r + H(R,A,M)a mod l as documented, Verify accepts, the textbook equation holds in the model. For the retained triples every candidate {S=0, S=l, S+l, l-S, all ones, R=0, sign bit only, y=1 with/without sign, y=p-1, y=p, y+p, sign flipped, R<->S, R=A, truncated, longer, empty}, every single-bit flip of the signature, of the message and of the public key, other keys: the library verdict must equal the model's (canonical ranges, decompression, [cof S]B = [cof](R + [H]A)). ECDSA (10 curves): 3 keys (A = [d]G, ranges, byte round trips and counts), 7 message lengths x {nil, sha256, sha512}: every signature verifies in the library and under SEC 1 4.1.4 in the model, SignForRecover/RecoverFrom returns the signer key and depends on the recovery bit; candidates {r or s = 0, n, +n, n-s, n-r, swapped, 1, all ones, wrong sizes}, every single-bit flip of signature and message, other keys: verdict = model. Engine H: all histories of up to 3 calls over {Sign, Verify(valid), Verify(invalid), Write(pending input)} on ONE hasher instance must give the fresh-hasher results. non-trivial = (instance, key / triple) tags")
	r.Assume("ECDSA digest-to-integer conversion is the library HashToInt on both sides; group arithmetic of the model is the textbook law (C02/C03 check the library against it)")
	var names []string
	bodies := map[string]func(){}
	for _, t := range tesRunC12 {
		t := t
		names = append(names, "eddsa/"+t.name)
		bodies["eddsa/"+t.name] = func() { t.run(r, "eddsa/"+t.name) }
	}
	for _, c := range curvesRunC12E {
		c := c
		names = append(names, "ecdsa/"+c.name)
		bodies["ecdsa/"+c.name] = func() { c.run(r, "ecdsa/"+c.name) }
	}
	// ecc/bls12-381/bandersnatch/eddsa is an EdDSA instance over ecc/bls12-381/twistededwards (see DESIGN.md)
	names = append(names, "eddsa/bandersnatch-package")
	bodies["eddsa/bandersnatch-package"] = func() { t_bls12_381.RunC12B(r, "eddsa/bandersnatch-package") }
	r.Parallel(names, func(g string) { bodies[g]() })
	r.Finish()
}
