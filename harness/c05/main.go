// C05 — pairings: bilinear, non-degenerate, identical across computation variants
// (engine L: exhaustive scalar-vector alphabets per k, oracle = scalar arithmetic mod r + generic tower model).
package main

import (
	"verifh/vlib"
)

type curveEntryRunC05 struct {
	name string
	run  func(r *vlib.Run, g string)
}

func main() {
	r := vlib.Start("C05", "exploration")
	r.Rule("per pairing curve (7): e(G1,G2) != 1 and e(G1,G2)^r = 1 in the generic F_p^k tower model; for every scalar vector over the alphabets (k=1: 11x9 scalars incl. 0, +-1, +-2, (r+1)/2, 2^64, 2^127-1, t, 1/t; k=2: full 4-fold product of 4..5-letter alphabets with cancelling members; k=3: {0,1,-1}^3 x {1,-1}^3 (thorough {0,1,-1}^6) plus infinity at each position in G1 and in G2; k=4,5: crafted cancelling / non-cancelling products with large scalars, infinity at every position; thorough k=4 {0,1}^4x{1,-1}^4): Pair = model e0^(sum a_i b_i), FinalExponentiation(MillerLoop) = FinalExponentiation(ml1, ml2) = PairFixedQ(PrecomputeLines) = FinalExponentiation(MillerLoopFixedQ) (second use of the same lines) = Pair, PairingCheck = PairingCheckFixedQ = (sum a_i b_i = 0 mod r); inputs and lines unchanged; 6 size-mismatch shapes must be errors in all six entry points; non-trivial = distinct exponent sums")
	r.Assume("[a]G1 and [b]G2 are produced by the library scalar multiplication, which C03 checks against the reference model")
	var names []string
	bodies := map[string]func(){}
	for _, c := range curvesRunC05 {
		c := c
		names = append(names, c.name)
		bodies[c.name] = func() { c.run(r, c.name) }
	}
	r.Parallel(names, func(g string) { bodies[g]() })
	r.Finish()
}
