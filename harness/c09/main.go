// C09 — configuration product runner (engine K). The observation-emitting drivers are
// executed under {default asm, ADX off, AVX-512 off, purego}; the per-group SHA-256
// digests of everything they computed must be identical across configurations.
package main

import (
	"bufio"
	"encoding/json"
	"fmt"
	"os"
	"os/exec"
	"path/filepath"
	"sort"
	"strings"
	"sync"

	"verifh/vlib"
)

type cfg struct {
	name   string
	env    []string
	purego bool
}

var cfgs = []cfg{
	{"default", nil, false},
	{"noadx", []string{"VERIF_NOADX=1"}, false},
	{"noavx512", []string{"VERIF_NOAVX512=1"}, false},
	{"purego", nil, true},
}

type obs map[string]struct {
	N      int64  `json:"n"`
	Sha256 string `json:"sha256"`
}

func runOne(r *vlib.Run, driver string, c cfg, verbose string) (obs, string) {
	bin := filepath.Join(vlib.Root, ".work/bin", driver)
	if c.purego {
		bin += "_purego"
	}
	out := filepath.Join(vlib.Root, ".work/obs", fmt.Sprintf("%s.%s.json", driver, c.name))
	os.MkdirAll(filepath.Dir(out), 0o755)
	os.Remove(out)
	cmd := exec.Command(bin, r.Tier)
	cmd.Env = append(os.Environ(), "VERIF_OBS_OUT="+out, "VERIF_BUDGET_S=86400", fmt.Sprintf("VERIF_SEED=%d", r.Seed()))
	cmd.Env = append(cmd.Env, c.env...)
	if verbose != "" {
		cmd.Env = append(cmd.Env, "VERIF_OBS_VERBOSE="+verbose)
	}
	b, err := cmd.CombinedOutput()
	if err != nil {
		if ee, ok := err.(*exec.ExitError); !ok || ee.ExitCode() != 1 {
			r.Harness(fmt.Sprintf("driver %s under %s failed: %v\n%s", driver, c.name, err, tail(string(b))))
		}
	}
	if i := strings.Index(string(b), "unrecovered panic in group"); i >= 0 {
		// a driver group that aborts silently truncates what is compared
		e := i + 600
		if e > len(b) {
			e = len(b)
		}
		r.Harness(fmt.Sprintf("driver %s under %s: %s", driver, c.name, string(b[i:e])))
	}
	var o obs
	f, err := os.ReadFile(out)
	if err != nil || json.Unmarshal(f, &o) != nil {
		r.Harness(fmt.Sprintf("driver %s under %s wrote no observations: %v\n%s", driver, c.name, err, tail(string(b))))
	}
	return o, out
}

func tail(s string) string {
	if len(s) > 1500 {
		return s[len(s)-1500:]
	}
	return s
}

func firstDiff(a, b string) string {
	fa, e1 := os.Open(a)
	fb, e2 := os.Open(b)
	if e1 != nil || e2 != nil {
		return "verbose files missing"
	}
	defer fa.Close()
	defer fb.Close()
	sa, sb := bufio.NewScanner(fa), bufio.NewScanner(fb)
	sa.Buffer(make([]byte, 1<<22), 1<<22)
	sb.Buffer(make([]byte, 1<<22), 1<<22)
	for {
		oa, ob := sa.Scan(), sb.Scan()
		if !oa || !ob {
			if oa != ob {
				return "one transcript is a strict prefix of the other"
			}
			return "no difference found in verbose transcripts"
		}
		if sa.Text() != sb.Text() {
			return fmt.Sprintf("first differing observation: default %q vs %q", clip(sa.Text()), clip(sb.Text()))
		}
	}
}

func sortedTranscript(path string) string {
	b, err := os.ReadFile(path)
	if err != nil {
		return "unreadable:" + path
	}
	l := strings.Split(string(b), "\n")
	sort.Strings(l)
	return strings.Join(l, "\n")
}

func clip(s string) string {
	if len(s) > 160 {
		return s[:160] + "..."
	}
	return s
}

func main() {
	r := vlib.Start("C09", "exploration")
	r.Rule("each observation driver (C01 field lattice incl. vectors and chains; c09x vector lengths 0..79 + switch sizes x 3 sub-slice alignments x in-place, mismatched-length calls, AVX-512 kernels: E4, FFT, Poseidon2, SIS; plus the other model-checked drivers as they are listed) is run under {default, ADX off, AVX-512 off, purego}; per-group digests of all outputs and panic-or-not outcomes must be equal; non-trivial = groups whose digests were compared across all 4 configurations")
	r.Assume("arm64 assembly cannot be executed on this host; only amd64 paths and the portable path are compared")
	r.Assume("the default configuration is compared with independent reference models by the owning checks (C01, C06, C10, C14), so a bug common to all paths is not masked")
	drivers := strings.Fields(os.Getenv("VERIF_C09_DRIVERS"))
	if len(drivers) == 0 {
		r.Harness("VERIF_C09_DRIVERS not set")
	}
	for _, d := range drivers {
		dg := "driver/" + d
		res := make([]obs, len(cfgs))
		var wg sync.WaitGroup
		sem := make(chan struct{}, 4)
		for i, c := range cfgs {
			wg.Add(1)
			go func(i int, c cfg) {
				defer wg.Done()
				sem <- struct{}{}
				res[i], _ = runOne(r, d, c, "")
				<-sem
			}(i, c)
		}
		wg.Wait()
		gset := map[string]bool{}
		for i := range cfgs {
			for g := range res[i] {
				gset[g] = true
			}
		}
		var groups []string
		for g := range gset {
			groups = append(groups, g)
		}
		sort.Strings(groups)
		var total int64
		bad := map[string][]int{} // group -> differing config indices
		for _, g := range groups {
			base := res[0][g]
			total += base.N
			for i := 1; i < len(cfgs); i++ {
				total += res[i][g].N
				if res[i][g] != base {
					bad[g] = append(bad[g], i)
				}
			}
			if len(bad[g]) == 0 {
				r.Tag(d + "/" + g)
			}
		}
		if len(bad) > 0 {
			// one verbose re-execution per configuration involved: localises the first differing
			// observation and doubles as the determinism check (digests must reproduce).
			var bl []string
			need := map[int]bool{0: true}
			for g, is := range bad {
				bl = append(bl, g)
				for _, i := range is {
					need[i] = true
				}
			}
			sort.Strings(bl)
			if len(bl) > 6 {
				bl = bl[:6] // localising the first differing observation is a convenience: the digests decide
			}
			vout := map[int]string{}
			unstable := map[string]bool{}
			for i := range cfgs {
				if !need[i] {
					continue
				}
				o2, out := runOne(r, d, cfgs[i], strings.Join(bl, ","))
				vout[i] = out
				for _, g := range groups {
					if o2[g] != res[i][g] {
						// the group's observation stream is produced sequentially by the driver from fixed inputs: if two
						// identical runs of one binary under one configuration disagree, what the library computed is
						// not a function of its inputs (typically a kernel reading memory it was not given). A third
						// run separates that from a one-off disturbance of the harness.
						o3, out3 := runOne(r, d, cfgs[i], g)
						if o3[g] == o2[g] && o3[g] == res[i][g] {
							continue
						}
						// the same multiset of observations in another order is a defect of the driver (e.g. iteration over
						// a map), not of the library: compare the sorted transcripts of two more runs
						t3 := sortedTranscript(out3 + ".verbose." + vlib.Sanitize(g))
						_, out4 := runOne(r, d, cfgs[i], g)
						t4 := sortedTranscript(out4 + ".verbose." + vlib.Sanitize(g))
						if t3 == t4 {
							r.Harness(fmt.Sprintf("driver %s group %s under %s: the observations are the same but their order differs between runs", d, g, cfgs[i].name))
						}
						unstable[g] = true
						r.FailIn(dg, fmt.Sprintf("cfg/%s/%s/%s-not-a-function-of-the-input", d, g, cfgs[i].name), g+"/"+cfgs[i].name,
							fmt.Sprintf("driver %s group %s: three identical runs under %s gave the digests %.12s / %.12s / %.12s", d, g, cfgs[i].name, res[i][g].Sha256, o2[g].Sha256, o3[g].Sha256),
							map[string]any{"driver": d, "group": g, "config": cfgs[i].name})
					}
				}
			}
			for g, is := range bad {
				if unstable[g] {
					continue
				}
				for _, i := range is {
					where := "not localised (more than 6 differing groups)"
					if _, err := os.Stat(vout[0] + ".verbose." + vlib.Sanitize(g)); err == nil {
						where = firstDiff(vout[0]+".verbose."+vlib.Sanitize(g), vout[i]+".verbose."+vlib.Sanitize(g))
					}
					r.FailIn(dg, fmt.Sprintf("cfg/%s/%s/%s-differs", d, g, cfgs[i].name), g+"/"+cfgs[i].name,
						fmt.Sprintf("driver %s group %s: outputs under %s differ from default (n=%d vs %d); %s", d, g, cfgs[i].name, res[i][g].N, res[0][g].N, where),
						map[string]any{"driver": d, "group": g, "config": cfgs[i].name})
				}
			}
		}
		r.Add(int(total))
		if len(groups) == 0 {
			r.Harness("driver " + d + " produced no observation group")
		}
		r.Sample(map[string]any{"driver": d, "groups": len(groups), "configs": []string{"default", "noadx", "noavx512", "purego"}, "example_group": groups[len(groups)/2], "example_digest": res[0][groups[len(groups)/2]].Sha256})
	}
	r.Finish()
}
