module verifh

go 1.23.0

require (
	github.com/consensys/gnark-crypto v0.0.0
	golang.org/x/crypto v0.35.0
)

require (
	github.com/bits-and-blooms/bitset v1.20.0 // indirect
	github.com/consensys/bavard v0.1.31-0.20250406004941-2db259e4b582 // indirect
	github.com/leanovate/gopter v0.2.11 // indirect
	github.com/mmcloughlin/addchain v0.4.0 // indirect
	golang.org/x/sys v0.30.0 // indirect
	rsc.io/tmplfunc v0.0.3 // indirect
)

replace github.com/consensys/gnark-crypto => /repo
