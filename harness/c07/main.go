// C07 — point and stream codecs: acceptance set against a model decoder (engine L) and
// Encode/Decode histories on one stream with every truncation / corruption position (engine H).
package main

import (
	"verifh/vlib"
)

type curveEntryRunC07 struct {
	name string
	run  func(r *vlib.Run, g string)
}

type teEntryRunC07 struct {
	name string
	run  func(r *vlib.Run, g string)
}

type curveEntryRunC07GT struct {
	name string
	run  func(r *vlib.Run, g string)
}

type curveEntryRunC07T struct {
	name string
	run  func(r *vlib.Run, g string)
}

type curveEntryRunC07S struct {
	name string
	run  func(r *vlib.Run, g string)
}

func main() {
	r := vlib.Start("C07", "model_checking")
	r.Rule("Per curve and group (10 curves): a model decoder (documented flag table, canonical big-endian coordinates, curve equation and [r]P = O in the reference model) decides every byte string of the lattice {6 points incl. infinity} x {compressed, raw} x {every flag pattern, with and without a raw tail} x {every shorter length} x {trailing bytes}, {each coordinate slot} x {p, p+1, p+c, 0, 1, p-1, c+1, all ones}, x values without a point, on-curve points outside the subgroup and their pure-cofactor part [r]P, off-curve raw pairs, one-bit payloads at every byte of both infinity encodings; SetBytes, Unmarshal, Decoder and Decoder+NoSubgroupChecks must accept exactly the model's set, return the denoted point, report the encoding size and re-encode to the same bytes. Streams (engine H, curves with an Encoder): explicit-state exploration of Encode histories (depth 2, thorough 3) over an alphabet of ~19 typed values (fr, fp, []fr, []fp, [][]fr, [][][]fr, []uint64, [][]uint64, G1, G2, []G1, []G2 with infinities and empty slices) in compressed and raw mode; every stream must equal the length-prefixed big-endian format model, BytesWritten/BytesRead must match, decoding through 1-byte / 7-byte / whole readers into fresh and into reused (stale, same-shape) destinations must re-encode identically, every truncation offset (all offsets for single items, boundary offsets of the last item otherwise) must give an error at the item containing the cut, and every leaf (field element, point at every slice / nested position) replaced by a non-canonical value, an invalid point or an on-curve point outside the subgroup must give an error at that item; stream groups run in worker processes under a hard address-space limit. non-trivial = (curve, group, point, mode) and stream depth tags")
	r.Assume("length prefixes that announce more elements than the stream holds are only produced by truncation; [a]G comes from the library scalar multiplication (C03)")
	var names []string
	bodies := map[string]func(){}
	for _, c := range curvesRunC07 {
		c := c
		names = append(names, c.name)
		bodies[c.name] = func() { c.run(r, c.name) }
	}
	if r.Shard() == "" {
		for _, c := range curvesRunC07GT {
			c := c
			names = append(names, c.name+"/GT")
			bodies[c.name+"/GT"] = func() { c.run(r, c.name+"/GT") }
		}
		for _, t := range tesRunC07 {
			t := t
			names = append(names, t.name)
			bodies[t.name] = func() { t.run(r, t.name) }
		}
	}
	// the stream groups run in worker processes under a hard address-space limit: a decoder that
	// loses its position in the stream allocates whatever a garbage length prefix announces
	for _, c := range curvesRunC07S {
		c := c
		g := c.name + "/stream"
		if sh := r.Shard(); sh != "" {
			if sh == g {
				c.run(r, g)
				r.Finish()
			}
			continue
		}
		names = append(names, g)
		bodies[g] = func() { r.RunShard(g, 12288, nil) }
	}
	// the typed codecs too: a desynchronised decoder allocates what a garbage prefix announces
	for _, c := range curvesRunC07T {
		c := c
		g := c.name + "/typed"
		if sh := r.Shard(); sh != "" {
			if sh == g {
				c.run(r, g)
				r.Finish()
			}
			continue
		}
		names = append(names, g)
		bodies[g] = func() { r.RunShard(g, 12288, nil) }
	}
	if r.Shard() != "" {
		r.Harness("unknown shard " + r.Shard())
	}
	r.Parallel(names, func(g string) { bodies[g]() })
	r.Finish()
}
