// C16 — Merkle trees: every (n, i) exhaustively, full single-component tamper menu, and an
// explicit-state exploration of construction histories (Push / PushSubTree / ReadAll) in
// which every transition must land in the canonical state of its leaf prefix.
package main

import (
	"bytes"
	"crypto/sha256"
	"encoding/hex"
	"fmt"
	frbn254 "github.com/consensys/gnark-crypto/ecc/bn254/fr"
	"hash"
	"math/big"
	"reflect"
	"strings"

	"github.com/consensys/gnark-crypto/accumulator/merkletree"
	_ "github.com/consensys/gnark-crypto/ecc/bn254/fr/poseidon2"
	frbls12381 "github.com/consensys/gnark-crypto/ecc/bls12-381/fr"
	"github.com/consensys/gnark-crypto/field/koalabear"
	kbposeidon2 "github.com/consensys/gnark-crypto/field/koalabear/poseidon2"
	"github.com/consensys/gnark-crypto/field/koalabear/vortex"
	gchash "github.com/consensys/gnark-crypto/hash"
	_ "github.com/consensys/gnark-crypto/hash/all"

	"verifh/vlib"
)

type hspec struct {
	name     string
	mk       func() hash.Hash
	leafSize int
	// varLen: the leaves have different lengths below the block size of the hasher (lengths 8, 7, ..., 3, 8, ...): a
	// hasher that pads short writes must not remember anything of the previous, longer one
	varLen bool
	// modulus of the field a field hasher works over (nil: byte-oriented hasher): value + modulus is the other byte
	// string with the same residue
	modulus *big.Int
}

func (hs hspec) leafAt(k int) []byte {
	if hs.varLen {
		return leaf(hs.leafSize, k)[k%(hs.leafSize-2):]
	}
	return leaf(hs.leafSize, k)
}

func hspecs() []hspec {
	return []hspec{
		{"sha256", sha256.New, 4, false, nil},
		{"mimc_bn254", func() hash.Hash { return gchash.MIMC_BN254.New() }, 32, false, frbn254.Modulus()},
		{"poseidon2_bn254", func() hash.Hash { return gchash.POSEIDON2_BN254.New() }, 32, false, frbn254.Modulus()},
		// leaves that are not a whole number of blocks (one block + 8 bytes: the tail is left-padded to a block)
		{"poseidon2_bn254_leaf40", func() hash.Hash { return gchash.POSEIDON2_BN254.New() }, 40, false, nil},
		// leaves shorter than a block, of decreasing lengths (MiMC left-pads a short write to one block)
		{"mimc_bn254_short_leaves", func() hash.Hash { return gchash.MIMC_BN254.New() }, 8, true, nil},
		// the MiMC of another curve (every curve has its own copy of the hasher)
		{"mimc_bls12_381", func() hash.Hash { return gchash.MIMC_BLS12_381.New() }, 32, false, frbls12381.Modulus()},
	}
}

// leaf k: distinct; for 32-byte leaves a canonical bn254 scalar (top byte 0x01).
func leaf(sz, k int) []byte {
	b := make([]byte, sz)
	b[0] = 0x01
	b[sz-3] = byte(k >> 16)
	b[sz-2] = byte(k >> 8)
	b[sz-1] = byte(k)
	if sz == 4 {
		b[0] = 0xa5
	}
	return b
}

// ---------- reference model (RFC 6962 shape, no prefixes, as tree.go documents) ----------
type refTree struct {
	mk func() hash.Hash
}

func (m refTree) H(parts ...[]byte) []byte {
	h := m.mk()
	for _, p := range parts {
		if _, err := h.Write(p); err != nil {
			panic("model hash write: " + err.Error())
		}
	}
	return h.Sum(nil)
}
func split(n int) int {
	k := 1
	for k*2 < n {
		k *= 2
	}
	return k
}
func (m refTree) root(d [][]byte) []byte {
	if len(d) == 1 {
		return m.H(d[0])
	}
	k := split(len(d))
	return m.H(m.root(d[:k]), m.root(d[k:]))
}
func (m refTree) path(i int, d [][]byte) [][]byte {
	if len(d) == 1 {
		return nil
	}
	k := split(len(d))
	if i < k {
		return append(m.path(i, d[:k]), m.root(d[k:]))
	}
	return append(m.path(i-k, d[k:]), m.root(d[:k]))
}

// ---------- exact private state of the real accumulator ----------
var dumpTree = dumpT

func dumpT(t *merkletree.Tree) string {
	var sb strings.Builder
	rv := reflect.ValueOf(t).Elem()
	fmt.Fprintf(&sb, "cur=%d pi=%d pt=%v ct=%v ps=[", rv.FieldByName("currentIndex").Uint(), rv.FieldByName("proofIndex").Uint(),
		rv.FieldByName("proofTree").Bool(), rv.FieldByName("cachedTree").Bool())
	ps := rv.FieldByName("proofSet")
	for i := 0; i < ps.Len(); i++ {
		sb.WriteString(hex.EncodeToString(ps.Index(i).Bytes()) + ",")
	}
	sb.WriteString("] stack=")
	cur := rv.FieldByName("head")
	for !cur.IsNil() {
		s := cur.Elem()
		fmt.Fprintf(&sb, "(%d:%s)", s.FieldByName("height").Int(), hex.EncodeToString(s.FieldByName("sum").Bytes()))
		cur = s.FieldByName("next")
	}
	return sb.String()
}

func cp(b []byte) []byte { return append([]byte{}, b...) }
func cpSet(p [][]byte) [][]byte {
	out := make([][]byte, len(p))
	for i := range p {
		out[i] = cp(p[i])
	}
	return out
}

func main() {
	r := vlib.Start("C16", "model_checking")
	r.Rule("all (n,i) with i<n<=N on the real accumulator and Vortex tree vs recursive tree-hash model; every single-component tampering of (root, every limb of the leaf and of every proof element, index) must be rejected; the Vortex model composes its own width-16 Poseidon2 object instead of calling the package node function; MiMC leaves shorter than a block and of decreasing lengths; construction histories explored as a state graph over leaf prefixes (every Push/PushSubTree/ReadAll transition must reach the canonical state); non-trivial = distinct (tree,n,i,tamper class) combinations")
	r.Assume("the 2-to-1 / leaf hash functions are trusted (SHA-256, MiMC, Poseidon2: see C14); collision resistance is assumed for 'tampered => rejected'")
	r.Assume("Vortex padding leaves (indices n..2^depth-1, zero hashes) are part of the tree as documented; out-of-range means <0 or >= 2^depth")
	N := 130
	histN := 12
	if r.Thorough() {
		N = 520
		histN = 24
	}
	var names []string
	bodies := map[string]func(string){}
	for _, hs := range hspecs() {
		hs := hs
		nmax := N
		if hs.name != "sha256" && r.Quick() {
			nmax = 70
		}
		if hs.name != "sha256" && r.Thorough() {
			nmax = 200
		}
		// shard by n mod 8 to use the cores
		for sh := 0; sh < 8; sh++ {
			sh := sh
			g := fmt.Sprintf("acc/%s/shard%d", hs.name, sh)
			names = append(names, g)
			bodies[g] = func(g string) {
				for n := 1 + sh; n <= nmax; n += 8 {
					if r.Expired(g) || r.RecheckDone() {
						return
					}
					accAll(r, g, hs, n)
				}
			}
		}
		g := fmt.Sprintf("hist/%s", hs.name)
		names = append(names, g)
		bodies[g] = func(g string) { histories(r, g, hs, histN) }
		g2 := fmt.Sprintf("readers/%s", hs.name)
		names = append(names, g2)
		bodies[g2] = func(g string) { readers(r, g, hs) }
	}
	for sh := 0; sh < 8; sh++ {
		sh := sh
		g := fmt.Sprintf("vortex/shard%d", sh)
		names = append(names, g)
		bodies[g] = func(g string) {
			for n := 1 + sh; n <= N; n += 8 {
				if r.Expired(g) || r.RecheckDone() {
					return
				}
				vortexAll(r, g, n)
			}
		}
	}
	// levels wide enough to be hashed by several workers (the library splits a level of >= 512 parents)
	for _, n := range []int{511, 513, 1000, 1024, 1025, 2048, 3000} {
		n := n
		if n > 2048 && r.Quick() {
			continue
		}
		g := fmt.Sprintf("vortex/large/n=%d", n)
		names = append(names, g)
		bodies[g] = func(g string) { vortexSome(r, g, n, 61) }
	}
	r.Parallel(names, func(g string) { bodies[g](g) })
	r.Finish()
}

// ---------- accumulator: all i for one n ----------
func accAll(r *vlib.Run, g string, hs hspec, n int) {
	m := refTree{hs.mk}
	leaves := make([][]byte, n)
	for k := range leaves {
		leaves[k] = hs.leafAt(k)
	}
	wantRoot := m.root(leaves)
	for i := 0; i < n; i++ {
		id := fmt.Sprintf("n=%d,i=%d", n, i)
		t := merkletree.New(hs.mk())
		if err := t.SetIndex(uint64(i)); err != nil {
			r.FailIn(g, "acc/"+hs.name+"/setindex-error", id, err.Error(), nil)
			continue
		}
		for k := range leaves {
			t.Push(cp(leaves[k]))
		}
		root, proof, idx, num := t.Prove()
		r.AddStates(1)
		r.AddTransitions(n + 1)
		if !bytes.Equal(root, wantRoot) || !bytes.Equal(t.Root(), wantRoot) {
			r.FailIn(g, "acc/"+hs.name+"/root-differs-from-model", id, fmt.Sprintf("root %x model %x", root, wantRoot), nil)
			continue
		}
		wantProof := append([][]byte{leaves[i]}, m.path(i, leaves)...)
		okp := len(proof) == len(wantProof) && idx == uint64(i) && num == uint64(n)
		if okp {
			for k := range proof {
				if !bytes.Equal(proof[k], wantProof[k]) {
					okp = false
				}
			}
		}
		if !okp {
			r.FailIn(g, "acc/"+hs.name+"/proof-differs-from-model", id, fmt.Sprintf("proof len %d want %d idx %d num %d", len(proof), len(wantProof), idx, num), nil)
			continue
		}
		// every verification runs twice: with a fresh hasher, and with ONE hasher the verifier keeps for the whole sequence
		// (whatever an earlier, possibly refused or aborted, verification left in it must not matter); after each tampered
		// proof the honest one must still verify with that same hasher
		kept := hs.mk()
		var honestRoot []byte
		var honestProof [][]byte
		verify := func(root []byte, p [][]byte, j, nn uint64) (res bool, pan string) {
			pan = vlib.Guard(func() { res = merkletree.VerifyProof(hs.mk(), root, p, j, nn) })
			var res2 bool
			pan2 := vlib.Guard(func() { res2 = merkletree.VerifyProof(kept, cp(root), cpSet(p), j, nn) })
			if res2 != res || (pan2 == "") != (pan == "") {
				r.FailIn(g, "acc/"+hs.name+"/verdict-depends-on-the-hasher-history", id, fmt.Sprintf("VerifyProof with a hasher kept from earlier verifications: %v %q, with a fresh hasher: %v %q (n=%d i=%d j=%d)", res2, pan2, res, pan, n, i, j), nil)
			}
			if honestProof != nil {
				var res3 bool
				pan3 := vlib.Guard(func() { res3 = merkletree.VerifyProof(kept, cp(honestRoot), cpSet(honestProof), uint64(i), uint64(n)) })
				if !res3 || pan3 != "" {
					r.FailIn(g, "acc/"+hs.name+"/honest-proof-rejected-after-another-verification", id, fmt.Sprintf("the honest proof is refused by a hasher that has just been used for another (possibly refused) verification: %v %q", res3, pan3), nil)
				}
			}
			return
		}
		r.Add(1)
		if ok, pan := verify(cp(root), cpSet(proof), uint64(i), uint64(n)); !ok || pan != "" {
			r.FailIn(g, "acc/"+hs.name+"/honest-proof-rejected", id, "VerifyProof false/panic on honest proof: "+pan, nil)
			continue
		}
		honestRoot, honestProof = cp(root), cpSet(proof)
		tam := func(class string, root []byte, p [][]byte, j uint64) {
			r.Add(1)
			r.Tag(fmt.Sprintf("acc/%s/%s/len%d", hs.name, class, len(proof)))
			ok, pan := verify(root, p, j, uint64(n))
			if pan != "" {
				r.FailIn(g, "acc/"+hs.name+"/panic/"+class, id, "VerifyProof panicked: "+pan, map[string]any{"n": n, "i": i, "tamper": class})
			} else if ok {
				r.FailIn(g, "acc/"+hs.name+"/accepted/"+class, id, fmt.Sprintf("tampered proof accepted (%s) n=%d i=%d j=%d", class, n, i, j), map[string]any{"n": n, "i": i, "j": j, "tamper": class})
			}
		}
		// root
		rt := cp(root)
		rt[len(rt)-1] ^= 1
		tam("root-bitflip", rt, cpSet(proof), uint64(i))
		tam("root-nil", nil, cpSet(proof), uint64(i))
		// every proof element
		for k := range proof {
			// field hashers: the other 32-byte string with the same residue (value + q). The hasher must not treat it as the
			// original (the library turns a refusing hasher into a panic: refusing by panic is not an acceptance)
			if hs.modulus != nil && hs.leafSize == 32 && len(proof[k]) == 32 {
				v := new(big.Int).SetBytes(proof[k])
				v.Add(v, hs.modulus)
				if v.BitLen() <= 256 {
					p := cpSet(proof)
					v.FillBytes(p[k])
					r.Add(1)
					if ok, pan := verify(cp(root), p, uint64(i), uint64(n)); pan == "" && ok {
						r.FailIn(g, "acc/"+hs.name+"/accepted/noncanonical-alias", id, fmt.Sprintf("proof accepted after element %d was replaced by value + q (another byte string) n=%d i=%d", k, n, i), map[string]any{"n": n, "i": i, "tamper": "noncanonical-alias"})
					}
				}
			}
			p := cpSet(proof)
			p[k][len(p[k])-1] ^= 1
			cls := "sibling-bitflip"
			if k == 0 {
				cls = "leaf-bitflip"
			}
			tam(cls, cp(root), p, uint64(i))
			if len(proof) > 1 || k > 0 {
				p = cpSet(proof)
				p = append(p[:k], p[k+1:]...)
				tam("drop-element", cp(root), p, uint64(i))
			}
			p = cpSet(proof)
			p = append(p[:k+1], p[k:]...)
			p[k+1] = cp(p[k])
			tam("duplicate-element", cp(root), p, uint64(i))
		}
		tam("extend-with-root", cp(root), append(cpSet(proof), cp(root)), uint64(i))
		tam("extend-with-last", cp(root), append(cpSet(proof), cp(proof[len(proof)-1])), uint64(i))
		tam("truncate-last", cp(root), cpSet(proof)[:len(proof)-1], uint64(i))
		tam("empty-proof", cp(root), nil, uint64(i))
		// index changed, same n
		js := map[uint64]bool{}
		if n <= 40 {
			for j := 0; j < n; j++ {
				js[uint64(j)] = true
			}
		} else {
			for _, d := range []int{-2, -1, 1, 2} {
				if j := i + d; j >= 0 && j < n {
					js[uint64(j)] = true
				}
			}
			for b := 0; (1 << b) < n; b++ {
				if j := i ^ (1 << b); j < n {
					js[uint64(j)] = true
				}
			}
			js[0], js[uint64(n-1)] = true, true
		}
		delete(js, uint64(i))
		for j := range js {
			tam("index-changed", cp(root), cpSet(proof), j)
		}
		// out of range
		for _, j := range []uint64{uint64(n), uint64(n + 1), uint64(i) + uint64(split(n))*2, uint64(i) + uint64(split(n))*4, 1 << 63, ^uint64(0)} {
			if j >= uint64(n) {
				tam("index-out-of-range", cp(root), cpSet(proof), j)
			}
		}
		if i == n/2 && n%13 == 0 {
			r.Sample(map[string]any{"tree": "accumulator", "hash": hs.name, "n": n, "i": i, "proof_len": len(proof)})
		}
	}
}

// ---------- construction histories as a state graph over prefixes ----------
func histories(r *vlib.Run, g string, hs hspec, nmax int) {
	m := refTree{hs.mk}
	leaves := make([][]byte, nmax)
	for k := range leaves {
		leaves[k] = leaf(hs.leafSize, k)
	}
	states, trans := 0, 0
	// i = nmax means "no proof index" (plain tree)
	for i := 0; i <= nmax; i++ {
		if r.Expired(g) || r.RecheckDone() {
			break
		}
		build := func(p int) *merkletree.Tree {
			t := merkletree.New(hs.mk())
			if i < nmax {
				t.SetIndex(uint64(i))
			}
			for k := 0; k < p; k++ {
				t.Push(cp(leaves[k]))
			}
			return t
		}
		canon := make([]string, nmax+1)
		dumpTree := dumpTree
		if i == nmax {
			// plain tree (no SetIndex): the proof set is not observable (Prove panics), compare stack and counters only
			dumpTree = func(t *merkletree.Tree) string {
				d := dumpT(t)
				return d[:strings.Index(d, " ps=[")] + d[strings.Index(d, "] stack="):]
			}
		}
		for p := 0; p <= nmax; p++ {
			t := build(p)
			canon[p] = dumpTree(t)
			states++
			// invariant in every state: Root / Prove agree with the model of the prefix
			if p > 0 {
				want := m.root(leaves[:p])
				if got := t.Root(); !bytes.Equal(got, want) {
					r.FailIn(g, "hist/"+hs.name+"/prefix-root", fmt.Sprintf("i=%d,p=%d", i, p), fmt.Sprintf("Root of %d-leaf prefix %x, model %x", p, got, want), nil)
				}
				if i < p {
					root, proof, _, num := t.Prove()
					wantProof := append([][]byte{leaves[i]}, m.path(i, leaves[:p])...)
					ok := bytes.Equal(root, want) && len(proof) == len(wantProof) && num == uint64(p)
					if ok {
						for k := range proof {
							ok = ok && bytes.Equal(proof[k], wantProof[k])
						}
					}
					if !ok {
						r.FailIn(g, "hist/"+hs.name+"/prefix-proof", fmt.Sprintf("i=%d,p=%d", i, p), "Prove on prefix differs from model", nil)
					}
					if dumpTree(t) != canon[p] {
						r.FailIn(g, "hist/"+hs.name+"/prove-mutates", fmt.Sprintf("i=%d,p=%d", i, p), "Prove/Root modified the tree", nil)
					}
				}
			}
		}
		// observers are part of the alphabet: Root() / Prove() between two construction steps must not change what the
		// next steps build (a memoised root has to be dropped by EVERY mutating operation)
		observedThen := func(p, q int, id string, apply func(t *merkletree.Tree) error) {
			if p == 0 {
				return
			}
			t := build(p)
			t.Root()
			if i < p {
				t.Prove()
			}
			if err := apply(t); err != nil {
				return // refusals are judged by the unobserved transition
			}
			trans++
			want := m.root(leaves[:q])
			if got := t.Root(); !bytes.Equal(got, want) {
				r.FailIn(g, "hist/"+hs.name+"/root-after-observed-prefix", id, fmt.Sprintf("Root()%s on the %d-leaf prefix, then %s: Root() is not the tree hash of the %d leaves", map[bool]string{true: " and Prove()", false: ""}[i < p], p, id, q), nil)
				return
			}
			if i < q && i < nmax {
				root, proof, _, num := t.Prove()
				wantProof := append([][]byte{leaves[i]}, m.path(i, leaves[:q])...)
				ok := bytes.Equal(root, want) && len(proof) == len(wantProof) && num == uint64(q)
				if ok {
					for k := range proof {
						ok = ok && bytes.Equal(proof[k], wantProof[k])
					}
				}
				if !ok {
					r.FailIn(g, "hist/"+hs.name+"/proof-after-observed-prefix", id, "Prove() after an observed prefix differs from the model", nil)
				}
			}
		}
		for p := 1; p < nmax; p++ {
			observedThen(p, p+1, fmt.Sprintf("i=%d,p=%d,Push", i, p), func(t *merkletree.Tree) error { t.Push(cp(leaves[p])); return nil })
		}
		for p := 0; p < nmax; p++ {
			// transition: PushSubTree(h) for every aligned admissible subtree
			for h := 0; p%(1<<h) == 0 && p+(1<<h) <= nmax; h++ {
				q := p + 1<<h
				contains := i >= p && i < q
				t := build(p)
				err := t.PushSubTree(h, m.root(leaves[p:q]))
				trans++
				id := fmt.Sprintf("i=%d,p=%d,subtree-h=%d", i, p, h)
				if contains {
					if err == nil {
						r.FailIn(g, "hist/"+hs.name+"/subtree-containing-index-accepted", id, "PushSubTree accepted a subtree containing the proof index", nil)
					} else if dumpTree(t) != canon[p] {
						r.FailIn(g, "hist/"+hs.name+"/refused-subtree-mutates", id, "refused PushSubTree changed the tree", nil)
					}
					continue
				}
				if err != nil {
					r.FailIn(g, "hist/"+hs.name+"/subtree-refused", id, "admissible PushSubTree refused: "+err.Error(), nil)
					continue
				}
				if d := dumpTree(t); d != canon[q] {
					r.FailIn(g, "hist/"+hs.name+"/subtree-state", id, "state after PushSubTree differs from state after pushing the same leaves", map[string]any{"got": d, "want": canon[q]})
				}
				observedThen(p, q, id, func(t *merkletree.Tree) error { return t.PushSubTree(h, m.root(leaves[p:q])) })
				r.Tag(fmt.Sprintf("hist/%s/subtree/h%d/p%d", hs.name, h, p))
			}
			// inadmissible: subtree larger than the smallest subtree (misaligned)
			for h := 1; h <= 3; h++ {
				if p%(1<<h) != 0 && p > 0 {
					t := build(p)
					err := t.PushSubTree(h, m.root(leaves[:1]))
					trans++
					if err == nil {
						r.FailIn(g, "hist/"+hs.name+"/misaligned-subtree-accepted", fmt.Sprintf("i=%d,p=%d,h=%d", i, p, h), "PushSubTree accepted a subtree taller than the smallest subtree", nil)
					} else if dumpTree(t) != canon[p] {
						r.FailIn(g, "hist/"+hs.name+"/refused-subtree-mutates", fmt.Sprintf("i=%d,p=%d,h=%d", i, p, h), "refused PushSubTree changed the tree", nil)
					}
				}
			}
			// transition: ReadAll of the next mm leaves, reader chunkings
			for mm := 1; p+mm <= nmax; mm++ {
				if mm > 3 && p+mm != nmax {
					continue
				}
				var buf []byte
				for k := p; k < p+mm; k++ {
					buf = append(buf, leaves[k]...)
				}
				for _, chunk := range []int{0, 1, 3} {
					t := build(p)
					err := t.ReadAll(&vlib.ChunkReader{B: cp(buf), N: chunk}, hs.leafSize)
					trans++
					id := fmt.Sprintf("i=%d,p=%d,readall=%d,chunk=%d", i, p, mm, chunk)
					if err != nil {
						r.FailIn(g, "hist/"+hs.name+"/readall-error", id, err.Error(), nil)
					} else if d := dumpTree(t); d != canon[p+mm] {
						r.FailIn(g, "hist/"+hs.name+"/readall-state", id, "state after ReadAll differs from state after pushing the same leaves", nil)
					}
					if chunk == 0 {
						observedThen(p, p+mm, id, func(t *merkletree.Tree) error {
							return t.ReadAll(&vlib.ChunkReader{B: cp(buf), N: 0}, hs.leafSize)
						})
					}
				}
				r.Tag(fmt.Sprintf("hist/%s/readall/m%d/p%d", hs.name, mm, p))
			}
		}
	}
	r.AddStates(states)
	r.AddTransitions(trans)
	r.AddTraces(trans)
	r.Add(trans)
	r.Sample(map[string]any{"histories": hs.name, "prefix_states": states, "transitions": trans, "ops": "Push|PushSubTree(h,modelRoot)|ReadAll(m leaves, chunking)"})
}

func readers(r *vlib.Run, g string, hs hspec) {
	m := refTree{hs.mk}
	nmax := 20
	for n := 1; n <= nmax; n++ {
		for _, lastShort := range []bool{false, true} {
			if lastShort && hs.leafSize != 4 && !hs.varLen {
				continue // a short last segment is only a well-formed leaf for byte-oriented hashes
			}
			leaves := make([][]byte, n)
			var buf []byte
			for k := range leaves {
				leaves[k] = leaf(hs.leafSize, k)
				if lastShort && k == n-1 {
					leaves[k] = leaves[k][:hs.leafSize-1]
				}
				buf = append(buf, leaves[k]...)
			}
			want := m.root(leaves)
			for _, chunk := range []int{0, 1, 5} {
				id := fmt.Sprintf("n=%d,short=%v,chunk=%d", n, lastShort, chunk)
				root, err := merkletree.ReaderRoot(&vlib.ChunkReader{B: cp(buf), N: chunk}, hs.mk(), hs.leafSize)
				r.Add(1)
				if err != nil || !bytes.Equal(root, want) {
					r.FailIn(g, "readers/"+hs.name+"/readerroot", id, fmt.Sprintf("ReaderRoot err=%v root=%x model=%x", err, root, want), nil)
				}
				for i := 0; i < n+2; i++ {
					root, proof, num, err := merkletree.BuildReaderProof(&vlib.ChunkReader{B: cp(buf), N: chunk}, hs.mk(), hs.leafSize, uint64(i))
					r.Add(1)
					if i >= n {
						if err == nil {
							r.FailIn(g, "readers/"+hs.name+"/proof-for-missing-index", id, fmt.Sprintf("BuildReaderProof(index %d >= n) returned no error", i), nil)
						}
						continue
					}
					ok := err == nil && bytes.Equal(root, want) && num == uint64(n) && merkletree.VerifyProof(hs.mk(), root, proof, uint64(i), num) && len(proof) > 0 && bytes.Equal(proof[0], leaves[i])
					if !ok {
						r.FailIn(g, "readers/"+hs.name+"/readerproof", id+fmt.Sprintf(",i=%d", i), fmt.Sprintf("BuildReaderProof wrong: err=%v", err), nil)
					}
				}
			}
		}
	}
}

// ---------- Vortex Poseidon2 tree ----------
func vleaf(k int) vortex.Hash {
	var h vortex.Hash
	for j := range h {
		h[j] = koalabear.NewElement(uint64(1000*k + j + 1))
	}
	return h
}

func vroot(l []vortex.Hash) vortex.Hash {
	if len(l) == 1 {
		return l[0]
	}
	return vcompress(vroot(l[:len(l)/2]), vroot(l[len(l)/2:]))
}

// vcompress: the node function as documented - the width-16 Poseidon2 permutation (6 full, 21 partial rounds; checked
// against the dense-matrix specification by C14) of left || right, truncated to 8 elements. The model builds its own
// permutation object and does not call the package's node function.
var vperm = kbposeidon2.NewPermutation(16, 6, 21)

func vcompress(a, b vortex.Hash) vortex.Hash {
	var x [16]koalabear.Element
	copy(x[:8], a[:])
	copy(x[8:], b[:])
	if err := vperm.Permutation(x[:]); err != nil {
		panic(err)
	}
	var res vortex.Hash
	copy(res[:], x[:8])
	return res
}
func vpath(i int, l []vortex.Hash) []vortex.Hash {
	if len(l) == 1 {
		return nil
	}
	h := len(l) / 2
	if i < h {
		return append(vpath(i, l[:h]), vroot(l[h:]))
	}
	return append(vpath(i-h, l[h:]), vroot(l[:h]))
}

func vortexAll(r *vlib.Run, g string, n int) { vortexSome(r, g, n, 1) }

// vortexSome: the root of every tree, and the openings of every stride-th position (plus the first and last three)
func vortexSome(r *vlib.Run, g string, n int, stride int) {
	leaves := make([]vortex.Hash, n)
	for k := range leaves {
		leaves[k] = vleaf(k)
	}
	size := 1
	depth := 0
	for size < n {
		size *= 2
		depth++
	}
	padded := make([]vortex.Hash, size)
	copy(padded, leaves)
	in := append([]vortex.Hash{}, leaves...)
	mt := vortex.BuildMerkleTree(in)
	r.AddStates(1)
	for k := range in {
		if in[k] != leaves[k] {
			r.FailIn(g, "vortex/build-mutates-input", fmt.Sprintf("n=%d", n), "BuildMerkleTree modified its input", nil)
		}
	}
	wantRoot := vroot(padded)
	if mt.Root() != wantRoot || mt.Depth() != depth {
		r.FailIn(g, "vortex/root-differs-from-model", fmt.Sprintf("n=%d", n), "root/depth differ from recursive model", nil)
		return
	}
	// the same leaves as the head of a larger, dirty buffer (pool[:n] with non-zero data behind len): the padding leaves
	// are zero hashes, not whatever the caller's backing array holds, and nothing behind len is written
	{
		pool := make([]vortex.Hash, 2*size+3)
		for k := range pool {
			pool[k] = vleaf(7000 + k)
		}
		copy(pool, leaves)
		snap := append([]vortex.Hash{}, pool...)
		mt2 := vortex.BuildMerkleTree(pool[:n])
		r.AddStates(1)
		if mt2.Root() != wantRoot || mt2.Depth() != depth {
			r.FailIn(g, "vortex/root-depends-on-spare-capacity", fmt.Sprintf("n=%d", n), fmt.Sprintf("BuildMerkleTree(pool[:%d]) over a buffer of capacity %d with non-zero data behind len: root/depth differ from the zero-padded tree of the %d leaves", n, len(pool), n), nil)
		}
		for k := range pool {
			if pool[k] != snap[k] {
				r.FailIn(g, "vortex/build-mutates-input", fmt.Sprintf("n=%d,pool", n), "BuildMerkleTree wrote into the caller's buffer (behind or before len)", nil)
				break
			}
		}
		if n >= 1 && n <= size {
			if pr, err := mt2.Open(n - 1); err != nil || pr.Verify(n-1, leaves[n-1], wantRoot) != nil {
				r.FailIn(g, "vortex/open-after-pooled-build", fmt.Sprintf("n=%d", n), fmt.Sprintf("opening of the last committed leaf of a tree built from pool[:n] does not verify against the model root (err=%v)", err), nil)
			}
		}
	}
	for i := 0; i < size; i++ {
		if stride > 1 && !(i < 3 || i >= size-3 || i%stride == 0) {
			continue
		}
		id := fmt.Sprintf("n=%d,i=%d", n, i)
		proof, err := mt.Open(i)
		r.AddTransitions(1)
		if err != nil {
			r.FailIn(g, "vortex/open-error", id, err.Error(), nil)
			continue
		}
		want := vpath(i, padded)
		same := len(proof) == len(want)
		if same {
			for k := range want {
				same = same && proof[k] == want[k]
			}
		}
		if !same {
			r.FailIn(g, "vortex/proof-differs-from-model", id, "Open differs from model path", nil)
			continue
		}
		r.Add(1)
		if err := proof.Verify(i, padded[i], wantRoot); err != nil {
			r.FailIn(g, "vortex/honest-proof-rejected", id, err.Error(), nil)
			continue
		}
		if i >= n {
			continue // padding leaves are all equal (zero hash): tampering is only meaningful on committed leaves
		}
		tam := func(class string, p vortex.MerkleProof, j int, lf, root vortex.Hash) {
			r.Add(1)
			r.Tag(fmt.Sprintf("vortex/%s/depth%d", class, depth))
			var err error
			pan := vlib.Guard(func() { err = p.Verify(j, lf, root) })
			if pan != "" {
				r.FailIn(g, "vortex/panic/"+class, id, "Verify panicked: "+pan, nil)
			} else if err == nil {
				r.FailIn(g, "vortex/accepted/"+class, id+fmt.Sprintf(",j=%d", j), fmt.Sprintf("tampered proof accepted (%s) n=%d depth=%d i=%d j=%d", class, n, depth, i, j), map[string]any{"n": n, "i": i, "j": j, "tamper": class})
			}
		}
		cpp := func() vortex.MerkleProof { return append(vortex.MerkleProof{}, proof...) }
		one := koalabear.NewElement(1)
		for limb := 0; limb < 8; limb++ { // every limb of the leaf and of every sibling is bound
			lf := padded[i]
			lf[limb].Add(&lf[limb], &one)
			tam("leaf-changed", cpp(), i, lf, wantRoot)
		}
		rt := wantRoot
		rt[0].Add(&rt[0], &one)
		tam("root-changed", cpp(), i, padded[i], rt)
		for k := range proof {
			for limb := 0; limb < 8; limb++ {
				p := cpp()
				p[k][limb].Add(&p[k][limb], &one)
				tam("sibling-changed", p, i, padded[i], wantRoot)
			}
			p := cpp()
			p = append(p[:k], p[k+1:]...)
			tam("drop-element", p, i, padded[i], wantRoot)
			p = cpp()
			p = append(p[:k+1], p[k:]...)
			tam("duplicate-element", p, i, padded[i], wantRoot)
		}
		tam("extend-with-root", append(cpp(), wantRoot), i, padded[i], wantRoot)
		for j := 0; j < size; j++ {
			if j == i || (size > 64 && j != i^1 && j != i+1 && j != i-1 && j != 0 && j != size-1 && j != i^(size/2)) {
				continue
			}
			tam("index-changed", cpp(), j, padded[i], wantRoot)
		}
		for _, j := range []int{i + size, i + 2*size, i + (size << 8), i - size, i - 2*size, -1 - (size - 1 - i)} {
			tam("index-out-of-range", cpp(), j, padded[i], wantRoot)
		}
		if i == n/2 && n%17 == 0 {
			r.Sample(map[string]any{"tree": "vortex", "n": n, "depth": depth, "i": i})
		}
	}
	for _, j := range []int{size, size + 1, 2 * size} {
		var err error
		pan := vlib.Guard(func() { _, err = mt.Open(j) })
		r.Add(1)
		if pan != "" || err == nil {
			r.FailIn(g, "vortex/open-out-of-range", fmt.Sprintf("n=%d,j=%d", n, j), "Open of an index >= 2^depth did not return an error: "+pan, nil)
		}
	}
}
