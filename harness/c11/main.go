// C11 — KZG: completeness, exact acceptance with a known trapdoor, key reuse, serialisation
// (engine L over (size, length, class, point) and scalar tuples; engine H over verification histories).
package main

import (
	"verifh/vlib"
)

type curveEntryRunC11 struct {
	name string
	run  func(r *vlib.Run, g string)
}

func main() {
	r := vlib.Start("C11", "model_checking")
	r.Rule("Per KZG curve (7), SRS with known trapdoor tau (generic and the alpha=-1 order-4 shortcut), sizes {2,3,5,8} (thorough +16,33): the reference string equals ([tau^i]G1, G2, [tau]G2, lines); for every length 1..size x {zero, constant, monomial, generic, with-root} x z in {0, 1, tau, root, generic, -1}: Commit = [p(tau)]G1 (independent of nbTasks), Open gives ClaimedValue = p(z) and H = [q(tau)]G1 by synthetic division over big integers, Verify accepts; bad lengths are errors. Exactness: Verify on every ([c]G1, [h]G1, v, z) with h, v, z over a scalar alphabet and c = v + (tau - z)h (true) or c+1 / h+1 / v+1 / z+1 / -h accepts iff c - v = (tau - z)h; BatchVerifySinglePoint for k = 1..3 with the folding challenge read off FoldProof (accept iff sum gamma^i (c_i - v_i) = (tau - z)h for the verifier's own gamma), the challenge must change with every digest, claimed value, the point and the extra data, coordinated two-value alterations, honest batch openings of mixed lengths with every single-component alteration; BatchVerifyMultiPoints for k = 1..4 with one claim altered in every position and kind, claims whose errors cancel under every small fixed weight vector, size mismatches. Key reuse: all 27 histories of three verifications over {true, false, multi} return the isolated verdicts and leave the key unchanged. Serialisation: SRS (compressed, raw, unsafe read, memory dump with and without limit), proving / verifying key, opening proofs (every truncation offset), batch proofs (0, 1, 3 values), MPC setup transcript (contribute, verify, round trip, seal -> usable SRS). non-trivial = (curve, SRS case, size) tags")
	r.Assume("group elements of the form [a]G come from the library scalar multiplication (C03); multi-point soundness is up to the 1/r error of the random weights")
	var names []string
	bodies := map[string]func(){}
	for _, c := range curvesRunC11 {
		c := c
		names = append(names, c.name)
		bodies[c.name] = func() { c.run(r, c.name) }
	}
	r.Parallel(names, func(g string) { bodies[g]() })
	r.Finish()
}
