package main

import (
	"bytes"
	"fmt"
	"math/big"
	"sync"

	"github.com/consensys/gnark-crypto/ecc"
	fr377 "github.com/consensys/gnark-crypto/ecc/bls12-377/fr"
	sis377 "github.com/consensys/gnark-crypto/ecc/bls12-377/fr/sis"
	"github.com/consensys/gnark-crypto/ecc/bn254"
	"github.com/consensys/gnark-crypto/ecc/bn254/fr"
	"github.com/consensys/gnark-crypto/ecc/bn254/fr/fft"
	"github.com/consensys/gnark-crypto/ecc/bn254/fr/mimc"
	"github.com/consensys/gnark-crypto/ecc/bn254/fr/polynomial"
	"github.com/consensys/gnark-crypto/ecc/bn254/kzg"
	te "github.com/consensys/gnark-crypto/ecc/bn254/twistededwards"
	"github.com/consensys/gnark-crypto/field/babybear"
	bbsis "github.com/consensys/gnark-crypto/field/babybear/sis"
	"github.com/consensys/gnark-crypto/field/goldilocks"
	glsis "github.com/consensys/gnark-crypto/field/goldilocks/sis"
	"github.com/consensys/gnark-crypto/field/koalabear"
	fext "github.com/consensys/gnark-crypto/field/koalabear/extensions"
	kbp2 "github.com/consensys/gnark-crypto/field/koalabear/poseidon2"
	kbsis "github.com/consensys/gnark-crypto/field/koalabear/sis"
	"github.com/consensys/gnark-crypto/field/koalabear/vortex"
)

// C18: many goroutines use the same read-only argument objects at once; every one must obtain
// the result it obtains alone (and the race detector watches the accesses).
type c18Op struct {
	name string
	f    func() string
}

func c18Concurrent(tag string, ops []c18Op, want []string, workers int) {
	var wg sync.WaitGroup
	errs := make(chan string, workers*len(ops))
	for w := 0; w < workers; w++ {
		wg.Add(1)
		go func(w int) {
			defer wg.Done()
			for k := range ops {
				i := (k + w) % len(ops) // different goroutines are in different operations at the same time
				if got := ops[i].f(); want != nil && got != want[i] {
					errs <- fmt.Sprintf("%s: %s in worker %d of %d differs from its sequential result", tag, ops[i].name, w, workers)
				}
			}
		}(w)
	}
	wg.Wait()
	close(errs)
	for e := range errs {
		panic(e)
	}
}

var c18FirstUse sync.Once

func init() {
	// ---- first use of the lazily initialised globals happens concurrently (only the very first scenario of the process can see that)
	reg("C18", "bn254/first-use-of-lazy-globals/16-callers", func() {
		c18FirstUse.Do(func() {
			outs := make([]string, 16)
			var wg sync.WaitGroup
			for w := range outs {
				wg.Add(1)
				go func(w int) {
					defer wg.Done()
					c := te.GetEdwardsCurve()
					h := mimc.NewMiMC()
					h.Write(make([]byte, fr.Bytes))
					v := make([]fr.Element, 5)
					for i := range v {
						v[i].SetUint64(uint64(i*i + 1))
					}
					p := polynomial.InterpolateOnRange(v)
					var e fr.Element
					e.SetUint64(7)
					e.Exp(e, big.NewInt(-5))
					outs[w] = fmt.Sprintf("%v %v %x %v %v", c.Order.String(), c.Base, h.Sum(nil), p, e.String())
				}(w)
			}
			wg.Wait()
			for w := range outs {
				if outs[w] != outs[0] {
					panic("first use of lazily initialised globals: caller " + fmt.Sprint(w) + " obtained a different value")
				}
			}
		})
	})
	// ---- shared objects
	_, _, g1, g2 := bn254.Generators()
	var P []bn254.G1Affine
	var Q []bn254.G2Affine
	var lines [][2][len(bn254.LoopCounter)]bn254.LineEvaluationAff
	var sc []fr.Element
	for i := 0; i < 3; i++ {
		var p bn254.G1Affine
		var q bn254.G2Affine
		p.ScalarMultiplication(&g1, big.NewInt(int64(31*i+7)))
		q.ScalarMultiplication(&g2, big.NewInt(int64(13*i+5)))
		P, Q = append(P, p), append(Q, q)
		lines = append(lines, bn254.PrecomputeLines(q))
		var e fr.Element
		e.SetUint64(uint64(1000003*(i+1))).Exp(e, big.NewInt(17))
		sc = append(sc, e)
	}
	PI := []bn254.G1Affine{{}, P[0], P[1]}
	QI := []bn254.G2Affine{Q[2], Q[0], Q[1]}
	srs, _ := kzg.NewSRS(16, big.NewInt(123456789))
	poly := make([]fr.Element, 12)
	vec := make([]fr.Element, 64)
	for i := range vec {
		vec[i].SetUint64(uint64(i*i*7 + 3))
		if i < len(poly) {
			poly[i] = vec[i]
		}
	}
	var z fr.Element
	z.SetUint64(99)
	dig, _ := kzg.Commit(poly, srs.Pk)
	proof, _ := kzg.Open(poly, z, srs.Pk)
	dom := fft.NewDomain(64)
	sis, _ := kbsis.NewRSis(5, 4, 8, 64)
	sisIn := make([]koalabear.Element, 64)
	for i := range sisIn {
		sisIn[i].SetUint64(uint64(i*i + 11))
	}
	sisBig, _ := kbsis.NewRSis(5, 9, 16, 600)
	sisInBig := make([]koalabear.Element, 600)
	for i := range sisInBig {
		sisInBig[i].SetUint64(uint64(i*i*31 + 7))
	}
	sisBB, _ := bbsis.NewRSis(5, 4, 8, 64)
	sisInBB := make([]babybear.Element, 64)
	for i := range sisInBB {
		sisInBB[i].SetUint64(uint64(i*i + 13))
	}
	sisGL, _ := glsis.NewRSis(5, 4, 16, 64)
	sisInGL := make([]goldilocks.Element, 64)
	for i := range sisInGL {
		sisInGL[i].SetUint64(uint64(i*i+17) * 0x9E3779B97F4A7C15)
	}
	sis377a, _ := sis377.NewRSis(5, 6, 16, 20)
	sis377b, _ := sis377.NewRSis(5, 3, 8, 20)
	sisIn377 := make([]fr377.Element, 20)
	for i := range sisIn377 {
		sisIn377[i].SetUint64(uint64(i*i + 19))
		sisIn377[i].Square(&sisIn377[i]).Square(&sisIn377[i]).Square(&sisIn377[i]).Square(&sisIn377[i]).Square(&sisIn377[i])
	}
	vsis, _ := kbsis.NewRSis(7, 4, 8, 8)
	vparams, verr := vortex.NewParams(8, 8, vsis, 2, 3)
	if verr != nil {
		panic(verr)
	}
	vinput := make([][]koalabear.Element, 8)
	for i := range vinput {
		vinput[i] = make([]koalabear.Element, 8)
		for j := range vinput[i] {
			vinput[i][j].SetUint64(uint64(1000*i + j*j + 3))
		}
	}
	var valpha fext.E4
	valpha.B0.A0.SetUint64(3)
	valpha.B0.A1.SetUint64(5)
	valpha.B1.A0.SetUint64(7)
	valpha.B1.A1.SetUint64(11)
	perm := kbp2.NewPermutation(16, 6, 21)
	data := make([]byte, 4*fr.Bytes)
	for i := range data {
		if i%fr.Bytes != 0 {
			data[i] = byte(i)
		}
	}
	d := func(v any) string { return fmt.Sprintf("%v", v) }
	ops := []c18Op{
		{"Pair", func() string { v, _ := bn254.Pair(P, Q); return d(v) }},
		{"Pair(shared slices, infinity first)", func() string { v, _ := bn254.Pair(PI, QI); return d(v) }},
		{"PairFixedQ(shared lines)", func() string { v, _ := bn254.PairFixedQ(P, lines); return d(v) }},
		{"MultiExp(shared points, scalars)", func() string {
			var r bn254.G1Affine
			r.MultiExp(P, sc, ecc.MultiExpConfig{NbTasks: 2})
			return d(r)
		}},
		{"kzg.Commit(shared key)", func() string { v, _ := kzg.Commit(poly, srs.Pk); return d(v) }},
		{"kzg.Open(shared key)", func() string { v, _ := kzg.Open(poly, z, srs.Pk); return d(v) }},
		{"kzg.Verify(shared key)", func() string { return d(kzg.Verify(&dig, &proof, z, srs.Vk)) }},
		{"FFT(shared domain)", func() string {
			v := append([]fr.Element{}, vec...)
			dom.FFT(v, fft.DIF, fft.WithNbTasks(2))
			return d(v[:4])
		}},
		{"FFTInverse(shared domain, coset)", func() string {
			v := append([]fr.Element{}, vec...)
			dom.FFTInverse(v, fft.DIT, fft.OnCoset())
			return d(v[:4])
		}},
		{"mimc(shared input)", func() string { h := mimc.NewMiMC(); h.Write(data); return fmt.Sprintf("%x", h.Sum(nil)) }},
		{"HashToG1", func() string { v, _ := bn254.HashToG1(data, []byte("dst")); return d(v) }},
		{"GetEdwardsCurve", func() string { c := te.GetEdwardsCurve(); return c.Order.String() + d(c.Base) }},
		{"InterpolateOnRange(cached basis)", func() string { return d(polynomial.InterpolateOnRange(vec[:6])) }},
		// (polynomial.Pool is documented as not thread safe: one pool per caller)
		{"MultiLin.Evaluate(own pool)", func() string {
			pool := polynomial.NewPool(64, 256)
			m := polynomial.MultiLin(append([]fr.Element{}, vec[:8]...))
			return d(m.Evaluate(sc, &pool))
		}},
		{"Element.Exp(negative exponent, pooled big.Int)", func() string { var e fr.Element; e.Exp(sc[0], big.NewInt(-12345)); return e.String() }},
		{"Element.Exp(ONE negative exponent object shared by all callers)", func() string { var e fr.Element; e.Exp(sc[1], sharedNegExp); return e.String() }},
		{"GT.Exp(negative exponent, pooled big.Int)", func() string {
			v, _ := bn254.Pair(P[:1], Q[:1])
			var e bn254.GT
			e.Exp(v, big.NewInt(-77))
			return d(e)
		}},
		{"Encoder(shared slices)", func() string {
			var w bytes.Buffer
			enc := bn254.NewEncoder(&w)
			enc.Encode(P)
			enc.Encode(sc)
			return fmt.Sprintf("%x", w.Bytes())
		}},
		{"Decoder(slice of compressed points)", func() string {
			var w bytes.Buffer
			bn254.NewEncoder(&w).Encode(P)
			var out []bn254.G1Affine
			err := bn254.NewDecoder(&w).Decode(&out)
			return d(out) + d(err)
		}},
		{"SIS.Hash(shared key)", func() string {
			res := make([]koalabear.Element, 16)
			err := sis.Hash(sisIn, res)
			return d(res) + d(err)
		}},
		{"SIS.Hash(shared key, koalabear degree 512 / 16-bit limbs)", func() string {
			res := make([]koalabear.Element, 512)
			err := sisBig.Hash(sisInBig, res)
			return d(res[:8]) + d(res[500:]) + d(err)
		}},
		{"SIS.Hash(shared key, babybear)", func() string {
			res := make([]babybear.Element, 16)
			err := sisBB.Hash(sisInBB, res)
			return d(res) + d(err)
		}},
		{"SIS.Hash(shared key, goldilocks)", func() string {
			res := make([]goldilocks.Element, 16)
			err := sisGL.Hash(sisInGL, res)
			return d(res) + d(err)
		}},
		{"SIS.Hash(shared key, bls12-377 degree 64 / 16-bit limbs)", func() string {
			res := make([]fr377.Element, 64)
			err := sis377a.Hash(sisIn377, res)
			return d(res[:4]) + d(res[60:]) + d(err)
		}},
		{"SIS.Hash(shared key, bls12-377 degree 8 / 8-bit limbs)", func() string {
			res := make([]fr377.Element, 8)
			err := sis377b.Hash(sisIn377, res)
			return d(res) + d(err)
		}},
		{"vortex.Commit + OpenLinComb + OpenColumns(shared parameters and input matrix)", func() string {
			ps, err := vortex.Commit(vparams, vinput)
			if err != nil {
				return d(err)
			}
			ps.OpenLinComb(valpha)
			pr, err := ps.OpenColumns([]int{0, 5, 15})
			if err != nil {
				return d(err)
			}
			return d(ps.GetCommitment()) + d(pr.UAlpha) + d(pr.OpenedColumns)
		}},
		{"Poseidon2.Permutation(shared parameters)", func() string {
			in := make([]koalabear.Element, 16)
			copy(in, sisIn)
			err := perm.Permutation(in)
			return d(in) + d(err)
		}},
	}
	var want []string
	for _, workers := range []int{2, 8, 64} {
		workers := workers
		reg("C18", fmt.Sprintf("bn254+koalabear/shared-read-only-objects/%d-callers", workers), func() {
			if want == nil {
				want = make([]string, len(ops))
				for i, o := range ops {
					want[i] = o.f()
				}
			}
			c18Concurrent(fmt.Sprintf("%d callers", workers), ops, want, workers)
		})
	}
}

// sharedNegExp: a read-only exponent every caller passes to Exp (an implementation must not use it as scratch space)
var sharedNegExp = big.NewInt(-987654321)
