package main

import (
	"fmt"
	"runtime"
)

type fieldEntryC01RaceShared struct {
	name string
	run  func(workers int) string
}

// C01 (results are functions of the operand VALUES): the arithmetic of every field package with 8 concurrent callers
// that share their read-only operands - a negative exponent, an element, a vector. A routine that uses an operand as
// scratch space (even if it restores it) gives the other callers wrong values; the race detector sees the write.
func init() {
	reg("C01", "all-fields/shared-read-only-operands/concurrent-callers", func() {
		if p := runtime.GOMAXPROCS(0); p != 2 && p != 16 {
			return
		}
		done := make(chan string, len(fieldsC01RaceShared))
		for _, f := range fieldsC01RaceShared {
			f := f
			go func() { done <- f.run(8) }()
		}
		for range fieldsC01RaceShared {
			if d := <-done; d != "" {
				panic(fmt.Sprint(d))
			}
		}
	})
}
