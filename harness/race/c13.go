package main

import (
	"fmt"
	"runtime"
)

type fieldEntryC13RaceHash struct {
	name string
	run  func(workers int) string
}

// C13 (determinism; C18's "pooled global state never leaks between calls"): hash-to-field of every field package
// with 12 concurrent callers per field (GOMAXPROCS 2 and 16) - all packages borrow big integers from one process-wide pool.
func init() {
	reg("C13", "all-fields/hash-to-field/concurrent-callers", func() {
		if p := runtime.GOMAXPROCS(0); p != 2 && p != 16 {
			return
		}
		for _, workers := range []int{12} {
			done := make(chan string, len(fieldsC13RaceHash))
			for _, f := range fieldsC13RaceHash { // the fields run at the same time too: they share the pool
				f := f
				go func() { done <- f.run(workers) }()
			}
			for range fieldsC13RaceHash {
				if d := <-done; d != "" {
					panic(fmt.Sprint(d))
				}
			}
		}
	})
}
