// race — the separate free-running pass of engine S: the same scenario bodies as the
// schedule explorer, uninstrumented, built with -race. The cooperative scheduler's hand-offs
// are happens-before edges, so unsynchronised accesses can only be seen here. The race
// detector works on happens-before, not on timing: a report names two unordered accesses and
// is sound evidence on its own.
//
//	race <PROP>     runs the scenario families of that property (C04, C07, C08, C10, C18)
package main

import (
	"fmt"
	"os"
	"runtime"
)

type scen struct {
	name string
	f    func()
}

var families = map[string][]scen{}

func reg(prop, name string, f func()) { families[prop] = append(families[prop], scen{name, f}) }

func main() {
	if len(os.Args) < 2 {
		fmt.Println("usage: race <PROP>")
		os.Exit(2)
	}
	n := 0
	for _, procs := range []int{1, 2, 3, 8, 16} {
		runtime.GOMAXPROCS(procs)
		for _, s := range families[os.Args[1]] {
			func() {
				defer func() {
					if e := recover(); e != nil {
						fmt.Printf("RACE-PASS-PANIC scenario=%s procs=%d: %v\n", s.name, procs, e)
					}
				}()
				s.f()
			}()
			n++
		}
	}
	fmt.Printf("RACE-PASS-DONE prop=%s runs=%d scenarios=%d\n", os.Args[1], n, len(families[os.Args[1]]))
}
