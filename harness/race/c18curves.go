package main

import (
	"fmt"
	"runtime"

	c_bls12_377 "verifh/gen/curves/c_bls12_377"
	c_bls12_381 "verifh/gen/curves/c_bls12_381"
	c_bls24_315 "verifh/gen/curves/c_bls24_315"
	c_bls24_317 "verifh/gen/curves/c_bls24_317"
	c_bw6_633 "verifh/gen/curves/c_bw6_633"
	c_bw6_761 "verifh/gen/curves/c_bw6_761"
)

// C18 on the other pairing curves (their code is separate generated copies): the operations of the history
// explorer, 4 goroutines inside different operations on ONE set of argument objects, once (at GOMAXPROCS 8).
func init() {
	for _, c := range []struct {
		name string
		ops  func() ([]string, []func() string)
	}{
		{"bls12-377", c_bls12_377.C18RaceOps}, {"bls12-381", c_bls12_381.C18RaceOps}, {"bls24-315", c_bls24_315.C18RaceOps},
		{"bls24-317", c_bls24_317.C18RaceOps}, {"bw6-633", c_bw6_633.C18RaceOps}, {"bw6-761", c_bw6_761.C18RaceOps},
	} {
		c := c
		reg("C18", c.name+"/shared-read-only-objects/4-callers", func() {
			if runtime.GOMAXPROCS(0) != 8 {
				return
			}
			names, fs := c.ops()
			ops := make([]c18Op, len(fs))
			want := make([]string, len(fs))
			for i := range fs {
				ops[i] = c18Op{names[i], fs[i]}
				want[i] = fs[i]()
			}
			c18Concurrent(fmt.Sprintf("%s 4 callers", c.name), ops, want, 4)
		})
	}
}
