package main

import (
	"fmt"

	"github.com/consensys/gnark-crypto/ecc/bn254/fr"
	"github.com/consensys/gnark-crypto/ecc/bn254/fr/fft"
	kb "github.com/consensys/gnark-crypto/field/koalabear"
	kbfft "github.com/consensys/gnark-crypto/field/koalabear/fft"
)

func init() {
	for _, lg := range []int{6, 10} {
		for _, pre := range []bool{true, false} {
			for _, coset := range []bool{false, true} {
				for _, dec := range []fft.Decimation{fft.DIT, fft.DIF} {
					for _, inv := range []bool{false, true} {
						for _, tasks := range []int{2, 4, 16} {
							lg, pre, coset, dec, inv, tasks := lg, pre, coset, dec, inv, tasks
							reg("C10", fmt.Sprintf("bn254/fft/log=%d/pre=%v/coset=%v/dec=%d/inv=%v/tasks=%d", lg, pre, coset, dec, inv, tasks), func() {
								var dopts []fft.DomainOption
								if !pre {
									dopts = append(dopts, fft.WithoutPrecompute())
								}
								d := fft.NewDomain(1<<lg, dopts...)
								a := make([]fr.Element, 1<<lg)
								for i := range a {
									a[i].SetUint64(uint64(i + 1))
								}
								opts := []fft.Option{fft.WithNbTasks(tasks)}
								if coset {
									opts = append(opts, fft.OnCoset())
								}
								if inv {
									d.FFTInverse(a, dec, opts...)
								} else {
									d.FFT(a, dec, opts...)
								}
							})
							reg("C10", fmt.Sprintf("koalabear/fft/log=%d/pre=%v/coset=%v/dec=%d/inv=%v/tasks=%d", lg, pre, coset, dec, inv, tasks), func() {
								var dopts []kbfft.DomainOption
								if !pre {
									dopts = append(dopts, kbfft.WithoutPrecompute())
								}
								d := kbfft.NewDomain(1<<lg, dopts...)
								a := make([]kb.Element, 1<<lg)
								for i := range a {
									a[i].SetUint64(uint64(i + 1))
								}
								opts := []kbfft.Option{kbfft.WithNbTasks(tasks)}
								if coset {
									opts = append(opts, kbfft.OnCoset())
								}
								if inv {
									d.FFTInverse(a, kbfft.Decimation(dec), opts...)
								} else {
									d.FFT(a, kbfft.Decimation(dec), opts...)
								}
							})
						}
					}
				}
			}
		}
	}
}
