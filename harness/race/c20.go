package main

import (
	"fmt"

	c_bls12_377 "verifh/gen/curves/c_bls12_377"
	c_bls12_381 "verifh/gen/curves/c_bls12_381"
	c_bls24_315 "verifh/gen/curves/c_bls24_315"
	c_bls24_317 "verifh/gen/curves/c_bls24_317"
	c_bn254 "verifh/gen/curves/c_bn254"
	c_bw6_633 "verifh/gen/curves/c_bw6_633"
	c_bw6_761 "verifh/gen/curves/c_bw6_761"
)

// C20 (all task counts): the task returned by MultiLin.FoldParallel is run by 2 / 4 / 8 goroutines on disjoint ranges
// at the same time; the folded table must equal Fold, and the race detector watches the accesses.
func init() {
	for _, c := range []struct {
		name string
		f    func(nv, workers int) string
	}{
		{"bn254", c_bn254.C20RaceFold}, {"bls12-377", c_bls12_377.C20RaceFold}, {"bls12-381", c_bls12_381.C20RaceFold}, {"bls24-315", c_bls24_315.C20RaceFold},
		{"bls24-317", c_bls24_317.C20RaceFold}, {"bw6-633", c_bw6_633.C20RaceFold}, {"bw6-761", c_bw6_761.C20RaceFold},
	} {
		c := c
		reg("C20", c.name+"/FoldParallel/concurrent-ranges", func() {
			for _, nv := range []int{4, 10, 14} {
				for _, w := range []int{2, 4, 8} {
					for rep := 0; rep < 3; rep++ {
						if d := c.f(nv, w); d != "" {
							panic(fmt.Sprint(d))
						}
					}
				}
			}
		})
	}
}
