package main

import (
	"fmt"
	"math/big"

	"github.com/consensys/gnark-crypto/ecc"
	"github.com/consensys/gnark-crypto/ecc/bn254"
	"github.com/consensys/gnark-crypto/ecc/bn254/fr"
)

func init() {
	_, _, g1, g2 := bn254.Generators()
	mk := func(n int, small bool) ([]bn254.G1Affine, []bn254.G2Affine, []fr.Element) {
		p1 := make([]bn254.G1Affine, n)
		p2 := make([]bn254.G2Affine, n)
		sc := make([]fr.Element, n)
		for i := range p1 {
			p1[i].ScalarMultiplication(&g1, big.NewInt(int64(i%37+1)))
			p2[i].ScalarMultiplication(&g2, big.NewInt(int64(i%5+1)))
			if small {
				sc[i].SetUint64(uint64(i%500 + 1))
			} else {
				sc[i].SetUint64(uint64(i+7)).Exp(sc[i], big.NewInt(int64(i+3)))
			}
		}
		return p1, p2, sc
	}
	for _, n := range []int{3, 200, 5000} {
		for _, small := range []bool{false, true} {
			for _, tasks := range []int{0, 1, 2, 3, 64, 1024} {
				n, small, tasks := n, small, tasks
				reg("C04", fmt.Sprintf("bn254/msm/n=%d/small=%v/tasks=%d", n, small, tasks), func() {
					p1, p2, sc := mk(n, small)
					var r1 bn254.G1Jac
					r1.MultiExp(p1, sc, ecc.MultiExpConfig{NbTasks: tasks})
					if n <= 200 {
						var r2 bn254.G2Jac
						r2.MultiExp(p2, sc, ecc.MultiExpConfig{NbTasks: tasks})
					}
				})
			}
		}
	}
}
