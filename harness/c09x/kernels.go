package main

import "verifh/vlib"

func kernelGroups(r *vlib.Run) map[string]func() {
	m := map[string]func(){}
	for k, f := range kernelsKoalabear(r) {
		m[k] = f
	}
	for k, f := range kernelsBabybear(r) {
		m[k] = f
	}
	return m
}
