// c09x — observation-only driver for C09 (vector lengths/alignments/mismatches and the
// AVX-512 kernels); run by the C09 orchestrator under each CPU configuration.
package main

import (
	"verifh/vlib"
)

type fieldEntryRunC09 struct {
	name string
	run  func(r *vlib.Run, g string)
}

func main() {
	r := vlib.Start("C09", "exploration")
	var names []string
	bodies := map[string]func(){}
	for _, f := range fieldsRunC09 {
		f := f
		names = append(names, "vec/"+f.name)
		bodies["vec/"+f.name] = func() { f.run(r, "vec/"+f.name) }
	}
	for name, f := range kernelGroups(r) {
		names = append(names, name)
		bodies[name] = f
	}
	r.Parallel(names, func(g string) { bodies[g]() })
	r.Finish()
}
