// C01 — prime-field arithmetic: bounded-exhaustive lattice enumeration + operation
// chains for all 23 fields against a math/big model (and complete enumeration of the
// 31-bit fields' unary domain in the thorough tier).
package main

import (
	"fmt"

	"verifh/vlib"
)

type fieldEntryRunC01Full struct {
	name string
	run  func(r *vlib.Run, g string, stride uint64)
}

type fieldEntryRunC01 struct {
	name string
	run  func(r *vlib.Run, g string, sh, nsh int)
}

func main() {
	r := vlib.Start("C01", "exploration")
	r.Rule("operands = boundary lattice over internal (Montgomery) limbs {0,1,2^k-1,2^(k-1),q_i,q_i+-1,2^32+-..} around 4 base patterns (pairwise complete) + semantic specials + generic values; unary ops over the whole lattice, binary over the structured subset squared; results must be canonical and equal math/big; chains feed results back as operands; non-trivial = distinct (field, op, branch class) tags actually reached")
	r.Assume("moduli are taken from the packages' exported Modulus() (specification constants)")
	const nsh = 4
	var names []string
	bodies := map[string]func(){}
	for _, f := range fieldsRunC01 {
		for sh := 0; sh < nsh; sh++ {
			f, sh := f, sh
			g := fmt.Sprintf("%s/shard%d", f.name, sh)
			names = append(names, g)
			bodies[g] = func() { f.run(r, g, sh, nsh) }
		}
	}
	if !r.ObsMode() {
		// free-running -race pass: concurrent callers sharing read-only operands (all fields at once)
		names = append(names, "race")
		bodies["race"] = func() { r.RunRacePass("C01") }
	}
	r.Parallel(names, func(g string) { bodies[g]() })
	// 31-bit fields: the whole unary domain (thorough) or a 2^-7 stride of it (quick);
	// each call uses all cores itself, so these run one after the other.
	stride := uint64(127)
	if r.Thorough() {
		stride = 1
	}
	for _, f := range fieldsRunC01Full {
		if r.ObsMode() {
			break // the full-domain pass only calls pure-Go element code; not part of the configuration comparison
		}
		f := f
		r.Group(f.name+"/full", func() { f.run(r, f.name+"/full", stride) })
	}
	r.Finish()
}
