package main

import "verifh/vlib"

func smallGroups(r *vlib.Run) map[string]func() {
	m := map[string]func(){}
	for k, f := range smallKoalabear(r) {
		m[k] = f
	}
	for k, f := range smallBabybear(r) {
		m[k] = f
	}
	for k, f := range smallGoldilocks(r) {
		m[k] = f
	}
	for k, f := range smallBls12377fr(r) {
		m[k] = f
	}
	return m
}
