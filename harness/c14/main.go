// C14 — algebraic hashes: specification equality (engine L) and streaming semantics as an
// explicit-state exploration of Write/Sum/Reset/State/SetState histories (engine H).
package main

import (
	"verifh/vlib"
)

type curveEntryRunC14 struct {
	name string
	run  func(r *vlib.Run, g string)
}

func main() {
	r := vlib.Start("C14", "model_checking")
	r.Rule("MiMC (8 curves): round constants = iterated Keccak of the seed, digest = Miyaguchi-Preneel over x->(x+k+c_i)^d with the documented d and rounds, for all messages of 0..3 blocks over a block alphabet, package constructor and registry; Poseidon2 (curve fields): permutation for t=2,3 x two round settings on the full 4^t input grid against dense-matrix arithmetic, Merkle-Damgard hasher against compress(h,m)=perm(h,m)[1]+m; small fields and ring-SIS: see groups; streaming: BFS over histories of Write{empty,1 byte,block-1,block,2 blocks,non-canonical,block+1 with spare capacity,block window of a larger array,2 blocks+8}/Sum/Reset/State/SetState to depth 4 (5 thorough), exact private state keys, digest = model of the concatenated accepted input, malformed writes must be rejected without panic, bytes beyond len(p) must not matter (differential run with different garbage); non-trivial = distinct states")
	r.Assume("after a rejected Write the hasher is not judged further (the property does not define the state of a hasher after an error)")
	r.Assume("Sum(b) with non-empty b and caller-side aliasing of returned slices are outside the statement")
	var names []string
	bodies := map[string]func(){}
	for _, c := range curvesRunC14 {
		c := c
		names = append(names, c.name)
		bodies[c.name] = func() { c.run(r, c.name) }
	}
	for name, f := range smallGroups(r) {
		names = append(names, name)
		bodies[name] = f
	}
	r.Parallel(names, func(g string) { bodies[g]() })
	r.Finish()
}
