package main

import "verifh/vlib"

type teEntryRunC02 struct {
	name string
	run  func(r *vlib.Run, g string)
}

var teRuns = func() []curveEntryRunC02 {
	var l []curveEntryRunC02
	for _, t := range tesRunC02 {
		l = append(l, curveEntryRunC02{t.name, t.run})
	}
	return l
}()
