// C02 — point arithmetic = group law in every coordinate system (engine L, math/big reference curve).
package main

import (
	"verifh/vlib"
)

type curveEntryRunC02 struct {
	name string
	run  func(r *vlib.Run, g string)
}

func main() {
	r := vlib.Start("C02", "exploration")
	r.Rule("per group (17 short-Weierstrass groups): alphabet {O, +-G, +-2G, 3G, 5G, [k]G, [r-3]G} built in the reference model; every ordered pair x Jacobian/extended-Jacobian representatives (Z in {1,-1,2,generic}, non-canonical infinities) through Add/Sub/Double/Neg/AddAssign/SubAssign/AddMixed/DoubleMixed/ext add, addMixed, subMixed, double(Neg)Mixed, conversions and BatchJacobianToAffine, compared with the affine chord-and-tangent law over the documented tower in math/big; Equal across representatives; IsOnCurve/IsInSubGroup on members, on curve points outside the subgroup (found by model sqrt) and off-curve points; twisted-Edwards companions likewise against the unified Edwards law; non-trivial = distinct (group, pair) and class tags")
	r.Assume("curve coefficients and generators are specification constants read from the library and checked in the model (on curve, order r); coordinates are read through BigInt (C08)")
	if sh := r.Shard(); sh != "" {
		for _, c := range curvesRunC02 {
			if c.name == sh {
				c.run(r, sh)
			}
		}
		for _, c := range teRuns {
			if c.name == sh {
				c.run(r, sh)
			}
		}
		r.Finish()
	}
	var names []string
	for _, c := range curvesRunC02 {
		names = append(names, c.name)
	}
	for _, c := range teRuns {
		names = append(names, c.name)
	}
	r.Parallel(names, func(g string) { r.RunShard(g, 0, nil) })
	r.Finish()
}
