package main

import (
	"reflect"
	"strings"

	"verifh/vlib"
)

type curveEntryRunC04L struct {
	name string
	run  func(r *vlib.Run, g string)
}

// the spec types differ per curve package (generated code), so the registry stores them as any
type curveEntrySchedSpecs struct {
	name string
	f    any // func(*vlib.Run) []SchedSpecX
}
type curveEntryRunC04S struct {
	name string
	f    any // func(*vlib.Run, string, SchedSpecX)
}

func specs(r *vlib.Run, i int) reflect.Value {
	return reflect.ValueOf(curvesSchedSpecs[i].f).Call([]reflect.Value{reflect.ValueOf(r)})[0]
}

func schedNames(r *vlib.Run, i int) []string {
	v := specs(r, i)
	var out []string
	for k := 0; k < v.Len(); k++ {
		out = append(out, v.Index(k).FieldByName("Name").String())
	}
	return out
}

func runShard(r *vlib.Run, sh string) {
	if runPar(r, sh) {
		return
	}
	for _, c := range curvesRunC04L {
		if sh == "L/"+c.name || sh == "Lbig/"+c.name {
			c.run(r, sh)
			return
		}
	}
	for i, c := range curvesSchedSpecs {
		pre := "S/" + c.name + "/"
		if !strings.HasPrefix(sh, pre) {
			continue
		}
		v := specs(r, i)
		for k := 0; k < v.Len(); k++ {
			if v.Index(k).FieldByName("Name").String() == sh[len(pre):] {
				reflect.ValueOf(curvesRunC04S[i].f).Call([]reflect.Value{reflect.ValueOf(r), reflect.ValueOf(sh), v.Index(k)})
				return
			}
		}
	}
	r.Harness("unknown shard " + sh)
}
