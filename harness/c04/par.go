package main

import (
	"fmt"
	"strings"

	vs "github.com/consensys/gnark-crypto/verifsched"
	"github.com/consensys/gnark-crypto/verifsched/vpar"

	"verifh/vlib"
	"verifh/vx"
)

// parallel.Execute on its own: the whole interleaving space closes (unbounded search).
var parSpecs = []struct {
	name          string
	n, cpus, task int // task<0: no maxCpus argument (NumCPU workers)
}{
	{"S/parallel.Execute/n=5,tasks=2", 5, 4, 2}, {"S/parallel.Execute/n=7,tasks=3", 7, 4, 3}, {"S/parallel.Execute/n=9,numcpu=4", 9, 4, -1},
	{"S/parallel.Execute/n=2,tasks=4", 2, 4, 4}, {"S/parallel.Execute/n=0,tasks=3", 0, 4, 3}, {"S/parallel.Execute/n=6,tasks=1", 6, 4, 1}, {"S/parallel.Execute/n=11,tasks=5", 11, 2, 5},
}

type parSt struct {
	out   []int
	cover []int
	snap  []int
}

func runPar(r *vlib.Run, g string) bool {
	for _, sp := range parSpecs {
		if sp.name != g {
			continue
		}
		sc := &vx.Scenario{Name: g, NumCPU: sp.cpus,
			Setup: func() any { return &parSt{out: make([]int, sp.n), cover: make([]int, sp.n)} },
			Body: func(a any) {
				s := a.(*parSt)
				work := func(start, end int) {
					for i := start; i < end; i++ {
						s.out[i] = i*i + 1
						s.cover[i]++
					}
				}
				if sp.task < 0 {
					vpar.Execute(sp.n, work)
				} else {
					vpar.Execute(sp.n, work, sp.task)
				}
				s.snap = append([]int{}, s.out...)
			},
			After: func(a any, res vs.Result) string {
				s := a.(*parSt)
				if res.Deadlock {
					return "deadlock"
				}
				if res.Panic != "" {
					return "panic: " + res.Panic
				}
				for i := range s.out {
					if s.snap[i] != i*i+1 {
						return fmt.Sprintf("iteration %d not finished when Execute returned", i)
					}
					if s.cover[i] != 1 {
						return fmt.Sprintf("iteration %d executed %d times", i, s.cover[i])
					}
				}
				if res.AliveAtReturn != 0 {
					return "workers still alive at return"
				}
				return "ok"
			}}
		outcomes := map[string]int{}
		x := &vx.Explorer{Bound: -1, Prune: true, Stop: func() bool { return r.Expired(g) }}
		x.OnOutcome = func(ch []int, res vs.Result, o string) {
			outcomes[o]++
			if o != "ok" {
				r.FailIn(g, "parallel-execute/"+strings.SplitN(o, ":", 2)[0], g+"/choices="+vx.ChoiceString(ch), g+": schedule ["+vx.ChoiceString(ch)+"] ends in "+o, map[string]any{"choices": ch})
			}
		}
		x.Explore(sc)
		r.Add(x.Executions)
		r.AddStates(x.States)
		r.AddTransitions(x.Executions * x.MaxPoints)
		r.AddTraces(x.Executions - x.PrunedExec)
		r.Tag(g)
		r.Set("sched/"+g, map[string]any{"unbounded": true, "complete": !x.CapHit, "executions": x.Executions, "pruned": x.PrunedExec, "distinct_state_keys": x.States, "threads": x.MaxThreads, "outcomes": outcomes})
		if x.CapHit {
			r.Cap(g + ": unbounded search not completed")
		}
		return true
	}
	return false
}
