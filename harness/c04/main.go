// C04 — MSM: inputs x configurations (engine L) in-process, and schedule exploration
// (engine S) with one worker process per scenario (the scheduler is process-global).
package main

import (
	"strings"

	"verifh/vlib"
)

func main() {
	r := vlib.Start("C04", "model_checking")
	r.Rule("L: structured MSM inputs (empty, single, equal/opposite/infinite points, zero/max/half-window/non-uniform scalars, batch-affine and overweight-split triggers) x NbTasks x every window size 4..16, oracle [sum s_i k_i]G by one scalar multiplication; S: all schedules of the real goroutines of _innerMsm / MultiExp at every channel, semaphore, WaitGroup operation up to a deviation bound (iterated 0,1,2) with state-key pruning; every execution must end in the same correct result without deadlock, panic, late write; non-trivial = distinct (curve, group, window, input class) and scenario tags")
	r.Assume("cooperative scheduler is sequentially consistent; unsynchronised accesses are the race pass's job (C18)")
	r.Assume("expected values use the library's ScalarMultiplication (checked against the reference group law by C03)")
	if sh := r.Shard(); sh != "" {
		runShard(r, sh)
		r.Finish()
	}
	var names []string
	kind := map[string]int{}
	for i, c := range curvesRunC04L {
		names = append(names, "L/"+c.name)
		kind["L/"+c.name] = i
		// inputs large enough for the public API to select its largest windows (G2 in the thorough tier)
		if strings.HasSuffix(c.name, "/G1") || r.Thorough() {
			names = append(names, "Lbig/"+c.name)
		}
	}
	var snames []string
	for i, c := range curvesSchedSpecs {
		if r.Quick() && !(strings.HasPrefix(c.name, "bn254/") || strings.HasSuffix(c.name, "/G1")) {
			continue
		}
		for _, s := range schedNames(r, i) {
			if r.Quick() && !strings.HasPrefix(c.name, "bn254/") && !strings.Contains(s, "inner-cS/n=3/tasks=2") {
				continue
			}
			snames = append(snames, "S/"+c.name+"/"+s)
		}
	}
	_ = kind
	for _, sp := range parSpecs {
		snames = append(snames, sp.name)
	}
	// every group runs in its own worker process: the scheduler is process-global, and a
	// crash or runtime-detected deadlock of the real goroutines (pass-through L part) must
	// not take the other groups down
	r.Parallel(append(append(snames, names...), "race"), func(g string) {
		if g == "race" {
			r.RunRacePass("C04")
			return
		}
		r.RunShard(g, 0, nil)
	})
	r.Finish()
}
