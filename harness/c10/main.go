// C10 — FFT = DFT (engine L), Domain codec histories (engine H), fork/join schedules (engine S).
package main

import (
	"reflect"
	"strings"

	"verifh/vlib"
)

type fieldEntryRunC10 struct {
	name string
	run  func(r *vlib.Run, g string)
}
type fieldEntryRunC10Codec struct {
	name string
	run  func(r *vlib.Run, g string)
}
type fieldEntryFFTSchedSpecs struct {
	name string
	f    any
}
type fieldEntryRunC10S struct {
	name string
	f    any
}

func specsOf(r *vlib.Run, i int) reflect.Value {
	return reflect.ValueOf(fieldsFFTSchedSpecs[i].f).Call([]reflect.Value{reflect.ValueOf(r)})[0]
}

func main() {
	r := vlib.Start("C10", "model_checking")
	r.Rule("L: for 10 FFT fields, every size 2^0..2^11 (2^14 thorough) x {DIT,DIF} x coset x precompute x custom shift x nbTasks {1,2,3,4,7,8,16,512} x {forward, inverse}: all basis vectors (n<=2^7; structured subset above), all-ones, a generic vector, expected values from the definition of the DFT on the (shifted) domain whose generator is verified to be a primitive root in math/big; BitReverse = model permutation and involution. H: Domain WriteTo/ReadFrom under 6 reader chunkings and every truncation, then behavioural comparison. S: all interleavings (unbounded, state-key pruning) of the fork/join goroutines of FFT/FFTInverse for sizes 2^6, 2^9, nbTasks 2/4, both decimations; every schedule must give the sequential result with all children joined; non-trivial = distinct (field,size,option) tags")
	r.Assume("expected DFT values are computed with the field's own Mul/Add (validated against math/big by C01)")
	if sh := r.Shard(); sh != "" {
		switch {
		case strings.HasPrefix(sh, "L/"):
			for _, f := range fieldsRunC10 {
				if sh == "L/"+f.name {
					f.run(r, sh)
				}
			}
		case strings.HasPrefix(sh, "codec/"):
			for _, f := range fieldsRunC10Codec {
				if sh == "codec/"+f.name {
					f.run(r, sh)
				}
			}
		default:
			for i, f := range fieldsFFTSchedSpecs {
				pre := "S/" + f.name + "/"
				if !strings.HasPrefix(sh, pre) {
					continue
				}
				v := specsOf(r, i)
				for k := 0; k < v.Len(); k++ {
					if v.Index(k).FieldByName("Name").String() == sh[len(pre):] {
						reflect.ValueOf(fieldsRunC10S[i].f).Call([]reflect.Value{reflect.ValueOf(r), reflect.ValueOf(sh), v.Index(k)})
					}
				}
			}
		}
		r.Finish()
	}
	var names []string
	for i, f := range fieldsFFTSchedSpecs {
		if r.Quick() && f.name != "bn254/fr" && f.name != "koalabear" && f.name != "goldilocks" {
			continue
		}
		v := specsOf(r, i)
		for k := 0; k < v.Len(); k++ {
			names = append(names, "S/"+f.name+"/"+v.Index(k).FieldByName("Name").String())
		}
	}
	for _, f := range fieldsRunC10 {
		names = append(names, "L/"+f.name)
	}
	for _, f := range fieldsRunC10Codec {
		names = append(names, "codec/"+f.name)
	}
	names = append(names, "race")
	r.Parallel(names, func(g string) {
		if g == "race" {
			r.RunRacePass("C10")
			return
		}
		r.RunShard(g, 0, nil)
	})
	r.Finish()
}
