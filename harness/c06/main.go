// C06 — extension-field and GT operations agree with generic arithmetic in F_p^k
// (engine L: reflection-discovered operations on structured operand menus against the quotient-ring model).
package main

import (
	"verifh/vlib"
)

type curveEntryRunC06 struct {
	name string
	run  func(r *vlib.Run, g string)
}

func main() {
	r := vlib.Start("C06", "exploration")
	r.Rule("per tower type of every pairing curve and of the small fields: every exported method and package function whose meaning is fixed by name+documentation (ring ops, Inverse/Div, Conjugate, Frobenius powers, non-residue products, Sqrt/Legendre, Exp with negative / oversized exponents, sub-field products, all documented sparse products MulByDIGITS / MulD1ByD2, Halve, Select, cyclotomic square, Karabina compressed square + (batch) decompression incl. x=1 at each batch position, Expt, CyclotomicExp, ExpGLV, InverseUnitary, torus (batch) compression round trip and its +-1 error case, IsInSubGroup, BatchInvert with zeros at every position) is discovered by reflection and evaluated on the full operand menu {0, 1, -1, 2, base-field, all coordinates p-1, each single non-zero slot, each single zero slot, sub-field, zero constant coefficient, 3 generic} (binary: menu x menu; sparse: product of slot menus x menu) and, for routines documented on the cyclotomic subgroup / GT, on model-built cyclotomic elements and pairing outputs; oracle = schoolbook arithmetic in the documented quotient rings (math/big); methods without model semantics are listed in the evidence sample; non-trivial = types")
	r.Assume("the documented tower (irreducible polynomials in the package documentation) is the specification; codecs of GT are left to C07")
	var names []string
	bodies := map[string]func(){}
	for _, c := range curvesRunC06 {
		c := c
		names = append(names, c.name)
		bodies[c.name] = func() { c.run(r, c.name) }
	}
	for k, f := range smallGroups(r) {
		names = append(names, k)
		bodies[k] = f
	}
	r.Parallel(names, func(g string) { bodies[g]() })
	r.Finish()
}
