package main

import (
	"fmt"
	"math/big"

	"github.com/consensys/gnark-crypto/field/babybear"
	bbext "github.com/consensys/gnark-crypto/field/babybear/extensions"
	"github.com/consensys/gnark-crypto/field/goldilocks"
	glext "github.com/consensys/gnark-crypto/field/goldilocks/extensions"
	"github.com/consensys/gnark-crypto/field/koalabear"
	kbext "github.com/consensys/gnark-crypto/field/koalabear/extensions"

	"verifh/vlib"
)

// small-field extensions: the documented towers (package documentation of each extensions package)
func smallGroups(r *vlib.Run) map[string]func() {
	m := map[string]func(){}
	m["koalabear/extensions"] = func() {
		g := "koalabear/extensions"
		T := vlib.NewTower(koalabear.Modulus()).Extend(2, 3).Extend(2, 0, 1)
		spec := &vlib.TowerSpec{Name: "koalabear", T: T, Types: map[string]any{"E2": new(kbext.E2), "E4": new(kbext.E4)},
			Funcs: map[string]any{"BatchInvertE2": kbext.BatchInvertE2, "BatchInvertE4": kbext.BatchInvertE4}, Quick: r.Quick(), Seed: r.Seed()}
		r.Add(vlib.CheckTower(r, g, spec))
		// multiply-accumulate kernel: res[i] += alpha * scale[i]
		n := 0
		for _, ln := range []int{0, 1, 2, 3, 4, 7, 8, 15, 16, 17, 31, 32, 33, 64, 100} {
			for variant := 0; variant < 3; variant++ {
				var alpha kbext.E4
				av := T.Zero(2)
				for i := range av {
					av[i].SetInt64(int64(1000003*(i+1) + variant*77))
					if variant == 2 {
						av[i].Sub(T.P, big.NewInt(1))
					}
				}
				vlib.Unflatten(&alpha, av)
				scale := make([]koalabear.Element, ln)
				res := make([]kbext.E4, ln)
				want := make([][]*big.Int, ln)
				for i := 0; i < ln; i++ {
					sv := big.NewInt(int64(i*i*31 + 5))
					if variant == 2 {
						sv.Sub(T.P, big.NewInt(int64(1+i%2)))
					}
					if variant == 1 && i%3 == 0 {
						sv.SetInt64(0)
					}
					scale[i].SetBigInt(sv)
					rv := T.Zero(2)
					for q := range rv {
						rv[q].SetInt64(int64(i*7 + q*13 + 1))
						if variant == 2 {
							rv[q].Sub(T.P, big.NewInt(1))
						}
					}
					vlib.Unflatten(&res[i], rv)
					want[i] = T.Add(rv, T.Mul(av, T.Embed([]*big.Int{sv}, 2)))
				}
				id := fmt.Sprintf("len=%d,variant=%d", ln, variant)
				if pn := vlib.Guard(func() { kbext.MulAccE4(&alpha, scale, res) }); pn != "" {
					r.FailIn(g, "ext/koalabear/pkg/MulAccE4/panic", id, pn, nil)
					continue
				}
				n++
				for i := range res {
					if !T.Equal(vlib.Flatten(&res[i]), want[i]) {
						r.FailIn(g, "ext/koalabear/pkg/MulAccE4/wrong-value", id, fmt.Sprintf("koalabear MulAccE4 %s: entry %d differs from res + alpha*scale", id, i), nil)
						break
					}
				}
			}
		}
		r.Add(n)
	}
	m["babybear/extensions"] = func() {
		T := vlib.NewTower(babybear.Modulus()).Extend(2, 11).Extend(2, 0, 1)
		spec := &vlib.TowerSpec{Name: "babybear", T: T, Types: map[string]any{"E2": new(bbext.E2), "E4": new(bbext.E4)},
			Funcs: map[string]any{"BatchInvertE2": bbext.BatchInvertE2, "BatchInvertE4": bbext.BatchInvertE4}, Quick: r.Quick(), Seed: r.Seed()}
		r.Add(vlib.CheckTower(r, "babybear/extensions", spec))
	}
	m["goldilocks/extensions"] = func() {
		T := vlib.NewTower(goldilocks.Modulus()).Extend(2, 7)
		spec := &vlib.TowerSpec{Name: "goldilocks", T: T, Types: map[string]any{"E2": new(glext.E2)},
			Funcs: map[string]any{"BatchInvertE2": glext.BatchInvertE2}, Quick: r.Quick(), Seed: r.Seed()}
		r.Add(vlib.CheckTower(r, "goldilocks/extensions", spec))
	}
	return m
}
