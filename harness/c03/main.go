// C03 — scalar multiplication = repeated addition for every integer (engine L, model double-and-add).
package main

import (
	"verifh/vlib"
)

type curveEntryRunC03 struct {
	name string
	run  func(r *vlib.Run, g string)
}
type teEntryRunC03 struct {
	name string
	run  func(r *vlib.Run, g string)
}

func main() {
	r := vlib.Start("C03", "exploration")
	r.Rule("per group (17 short-Weierstrass + 8 twisted-Edwards): ~90 integers {0,+-1,+-2,3,r-1,r,r+1,-r,2r+3,(r+-1)/2,isqrt(r)+-1,2^k-1,2^k,2^k+1,-2^k for k at limb/window/bit-length boundaries up to 769, 2^300+1, 2^3000+1,-2^2000, generic} x points {G,[k]G,-G,O} through Affine/Jac ScalarMultiplication(Base), mulWindowed, mulGLV, Edwards affine/proj/extended; all pairs over a 14-scalar subset through JointScalarMultiplication(Base); same-base batch of lengths {0,1,2,3,17,40}; oracle = double-and-add with the textbook law in math/big on s mod r (order r verified in the model); a panic is a violation; non-trivial = distinct (group, scalar) tags")
	r.Assume("points are of prime order r (verified in the model), so [s]P = [s mod r]P")
	var all []curveEntryRunC03
	all = append(all, curvesRunC03...)
	for _, t := range tesRunC03 {
		all = append(all, curveEntryRunC03{t.name, t.run})
	}
	if sh := r.Shard(); sh != "" {
		for _, c := range all {
			if c.name == sh {
				c.run(r, sh)
			}
		}
		r.Finish()
	}
	var names []string
	// slowest model arithmetic first
	for _, c := range all {
		if len(c.name) > 6 && c.name[:5] == "bls24" {
			names = append(names, c.name)
		}
	}
	for _, c := range all {
		if !(len(c.name) > 6 && c.name[:5] == "bls24") {
			names = append(names, c.name)
		}
	}
	if r.ObsMode() {
		// engine K collects the observations of one process
		byName := map[string]func(r *vlib.Run, g string){}
		for _, c := range all {
			byName[c.name] = c.run
		}
		r.Parallel(names, func(g string) { byName[g](r, g) })
		r.Finish()
	}
	r.Parallel(names, func(g string) { r.RunShard(g, 0, nil) })
	r.Finish()
}
