// Package vx is the search side of engine S: stateless depth-first exploration of the
// schedules of one scenario under the verifsched scheduler, with a deviation bound and
// state-key pruning.
package vx

import (
	"crypto/sha256"
	"fmt"
	"strings"

	vs "github.com/consensys/gnark-crypto/verifsched"
)

// Scenario: Setup builds fresh inputs (outside the scheduler), Body runs as thread 0, After
// runs when every managed goroutine has finished and returns the observed outcome.
type Scenario struct {
	Name   string
	NumCPU int
	Setup  func() any
	Body   func(st any)
	After  func(st any, res vs.Result) string
}

type Explorer struct {
	Bound     int  // max deviations; <0 = unbounded
	CostAll   bool // every non-default choice costs 1 (many-thread scenarios); else only pre-emptions and environment choices
	Prune     bool // state-key pruning
	MaxExec   int  // safety cap on executions (0 = none); hitting it is reported, never silent
	Stop      func() bool
	OnOutcome func(choices []int, res vs.Result, outcome string)

	Executions int
	PrunedExec int
	States     int
	MaxThreads int
	MaxPoints  int
	CapHit     bool
	visited    map[[16]byte]int32
}

const inf = 1 << 30

func (x *Explorer) runOnce(sc *Scenario, prefix []int, trace bool) (vs.Result, string) {
	st := sc.Setup()
	var visit func(string, int) bool
	if x.Prune {
		visit = func(ks string, remaining int) bool {
			if x.Bound < 0 {
				remaining = inf
			}
			// 128-bit digest of the exact state key (a collision would need ~2^64 states)
			sum := sha256.Sum256([]byte(ks))
			var key [16]byte
			copy(key[:], sum[:16])
			v, ok := x.visited[key]
			if ok && int(v) >= remaining {
				return false
			}
			if !ok {
				x.States++
			}
			x.visited[key] = int32(remaining)
			return true
		}
	}
	bound := x.Bound
	if bound < 0 {
		bound = inf
	}
	res := vs.RunOne(vs.Options{Prefix: prefix, Bound: bound, CostAll: x.CostAll, NumCPU: sc.NumCPU, KeepTrace: trace, Visit: visit}, func() { sc.Body(st) })
	out := ""
	if !res.Pruned {
		out = sc.After(st, res)
	}
	return res, out
}

// Replay runs one choice list with tracing and without pruning.
func (x *Explorer) Replay(sc *Scenario, choices []int) (vs.Result, string) {
	p := x.Prune
	x.Prune = false
	defer func() { x.Prune = p }()
	return x.runOnce(sc, choices, true)
}

func (x *Explorer) Explore(sc *Scenario) {
	x.visited = map[[16]byte]int32{}
	stack := [][]int{{}}
	for len(stack) > 0 {
		if x.Stop != nil && x.Stop() {
			x.CapHit = true
			return
		}
		if x.MaxExec > 0 && x.Executions >= x.MaxExec {
			x.CapHit = true
			return
		}
		prefix := stack[len(stack)-1]
		stack = stack[:len(stack)-1]
		res, out := x.runOnce(sc, prefix, false)
		x.Executions++
		if res.Threads > x.MaxThreads {
			x.MaxThreads = res.Threads
		}
		if res.Points > x.MaxPoints {
			x.MaxPoints = res.Points
		}
		choices := make([]int, len(res.Rec))
		for i, r := range res.Rec {
			choices[i] = r.Chosen
		}
		if res.Pruned {
			x.PrunedExec++
		} else if x.OnOutcome != nil {
			x.OnOutcome(choices, res, out)
		}
		// push alternatives in reverse so that the earliest deviation is explored first
		for i := len(res.Rec) - 1; i >= len(prefix); i-- {
			rec := res.Rec[i]
			for alt := rec.N - 1; alt >= 1; alt-- {
				cost := rec.Cost
				if rec.RunningOK || x.CostAll || rec.Env {
					cost++
				}
				if x.Bound >= 0 && cost > x.Bound {
					continue
				}
				np := make([]int, i+1)
				copy(np, choices[:i])
				np[i] = alt
				stack = append(stack, np)
			}
		}
	}
}

func ChoiceString(c []int) string {
	s := make([]string, len(c))
	for i, v := range c {
		s[i] = fmt.Sprint(v)
	}
	return strings.Join(s, ",")
}
