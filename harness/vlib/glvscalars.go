package vlib

import "math/big"

// GLVBoundaryScalars returns k1 + lambda*k2 mod r for short pairs (k1, k2) whose halves sit on machine-word boundaries
// (a decomposition into the short lattice basis reproduces such pairs, so the two half-scalars of the implementation have
// exactly these - different - word lengths and signs).
func GLVBoundaryScalars(lambda, r *big.Int) []*big.Int {
	one := big.NewInt(1)
	p := func(k uint) *big.Int { return new(big.Int).Lsh(one, k) }
	K := []*big.Int{one, big.NewInt(3), p(63), new(big.Int).Sub(p(64), one), p(64), p(65), new(big.Int).Sub(p(127), big.NewInt(5)),
		new(big.Int).Neg(one), new(big.Int).Neg(p(64)), new(big.Int).Neg(p(65)), new(big.Int).Neg(new(big.Int).Add(p(66), big.NewInt(7)))}
	var out []*big.Int
	for _, k1 := range K {
		for _, k2 := range K {
			s := new(big.Int).Mul(lambda, k2)
			s.Add(s, k1).Mod(s, r)
			out = append(out, s)
		}
	}
	return out
}

// OrderNeighbourScalars: integers whose double-and-add / windowed evaluation passes through small multiples of the
// base point again: k*r + t for small k, t, and those values followed by further bits ((r + t)*2^j + u).
func OrderNeighbourScalars(r *big.Int) []*big.Int {
	var out []*big.Int
	for k := int64(1); k <= 3; k++ {
		for t := int64(-3); t <= 3; t++ {
			v := new(big.Int).Mul(r, big.NewInt(k))
			v.Add(v, big.NewInt(t))
			out = append(out, v, new(big.Int).Neg(v))
		}
	}
	for _, t := range []int64{1, 2, 3} {
		for _, j := range []uint{1, 2, 4, 5, 9} {
			for _, u := range []int64{0, 1, 3} {
				v := new(big.Int).Add(r, big.NewInt(t))
				v.Lsh(v, j)
				v.Add(v, big.NewInt(u))
				out = append(out, v)
			}
		}
	}
	return out
}
