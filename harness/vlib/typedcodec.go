package vlib

import (
	"bytes"
	"fmt"
	"io"
	"strings"
)

// TypedCodec describes one WriteTo/ReadFrom pair of a typed object built on the stream codecs.
type TypedCodec struct {
	What  string
	Write func(io.Writer) (int64, error) // encodes the reference object
	// New returns a fresh destination: its reader, its writer in the same mode as Write, and a deep dump
	New     func() (read func(io.Reader) (int64, error), write func(io.Writer) (int64, error), dump func() string)
	RefDump string // deep dump of the reference object
	// MaxCorrupt bounds the number of corrupted byte positions (0 = all)
	MaxCorrupt int
	// PrefixLowBits: also flip the two low bits of the last byte of every 4-byte field. Only for formats in which no
	// length prefix follows another item (a shortened slice desynchronises the stream, and the next "prefix" is then
	// garbage: what a decoder allocates for it is outside the model, see DESIGN.md)
	PrefixLowBits bool
}

type spanReader struct {
	b     []byte
	off   int
	spans [][2]int
}

func (s *spanReader) Read(p []byte) (int, error) {
	if s.off >= len(s.b) {
		return 0, io.EOF
	}
	n := copy(p, s.b[s.off:])
	s.spans = append(s.spans, [2]int{s.off, len(p)})
	s.off += n
	return n, nil
}

// CheckTypedCodec: the encoding round-trips through every reader chunking (value, byte counts, identical
// re-encoding), trailing bytes are left unread, every truncation is an error, and every single-byte corruption is
// either rejected or accepted as a value that re-encodes to exactly the consumed bytes; nothing panics.
// Length prefixes (recognised as the 4-byte reads of the honest decoding) are not corrupted, or only in their low
// bits (PrefixLowBits): what a decoder allocates for a garbage prefix is outside the model.
func CheckTypedCodec(r *Run, g, prefix, name string, c TypedCodec) int {
	n := 0
	key := func(k string) string { return prefix + "/" + c.What + "/" + k }
	// a nil slice and an empty slice denote the same value
	norm := func(d string) string { return strings.ReplaceAll(d, "nil[]", "[]") }
	c.RefDump = norm(c.RefDump)
	var buf bytes.Buffer
	nw, err := c.Write(&buf)
	if err != nil || nw != int64(buf.Len()) {
		r.FailIn(g, key("write"), c.What, fmt.Sprintf("%s %s.WriteTo: err=%v reported=%d written=%d", name, c.What, err, nw, buf.Len()), nil)
		return n
	}
	b := append([]byte{}, buf.Bytes()...)
	var spans [][2]int
	for _, chunk := range []int{0, 1, 3, 9} {
		rd, wr, dump := c.New()
		var src io.Reader = &ChunkReader{B: append([]byte{}, b...), N: chunk}
		var sr *spanReader
		if chunk == 0 {
			sr = &spanReader{b: b}
			src = sr
		}
		var nr int64
		pn := Guard(func() { nr, err = rd(src) })
		n++
		id := fmt.Sprintf("%s chunk=%d", c.What, chunk)
		if pn != "" || err != nil || nr != int64(len(b)) {
			r.FailIn(g, key("read"), id, fmt.Sprintf("%s %s.ReadFrom of its own %d-byte encoding: err=%v read=%d %s", name, c.What, len(b), err, nr, pn), nil)
			return n
		}
		if sr != nil {
			spans = sr.spans
		}
		if d := norm(dump()); d != c.RefDump {
			r.FailIn(g, key("round-trip-value"), id, name+" "+c.What+" does not round-trip", nil)
			continue
		}
		var again bytes.Buffer
		if _, err := wr(&again); err != nil || !bytes.Equal(again.Bytes(), b) {
			r.FailIn(g, key("re-encoding-differs"), id, name+" "+c.What+": the decoded object encodes differently", nil)
		}
	}
	// trailing bytes stay unread
	{
		rd, _, dump := c.New()
		src := bytes.NewReader(append(append([]byte{}, b...), 0xde, 0xad, 0xbe, 0xef, 0x01))
		var nr int64
		pn := Guard(func() { nr, err = rd(src) })
		n++
		if pn != "" || err != nil || nr != int64(len(b)) || src.Len() != 5 || norm(dump()) != c.RefDump {
			r.FailIn(g, key("trailing-bytes"), c.What, fmt.Sprintf("%s %s.ReadFrom with 5 trailing bytes: err=%v read=%d of %d, left in reader=%d %s", name, c.What, err, nr, len(b), src.Len(), pn), nil)
		}
	}
	// truncations
	for t := 0; t < len(b); t++ {
		if len(b) > 800 && !(t < 70 || t > len(b)-70 || t%37 == 0) {
			continue
		}
		rd, _, _ := c.New()
		var e2 error
		var nr int64
		pn := Guard(func() { nr, e2 = rd(bytes.NewReader(b[:t])) })
		n++
		if pn != "" {
			r.FailIn(g, key("panic-on-truncation"), fmt.Sprintf("%s cut=%d", c.What, t), pn, nil)
		} else if e2 == nil {
			r.FailIn(g, key("truncation-accepted"), fmt.Sprintf("%s cut=%d/%d", c.What, t, len(b)), name+" "+c.What+".ReadFrom accepts a truncated encoding", nil)
		} else if nr > int64(t) {
			r.FailIn(g, key("byte-count"), fmt.Sprintf("%s cut=%d/%d", c.What, t, len(b)), fmt.Sprintf("%s %s.ReadFrom reports %d bytes read from a %d-byte input", name, c.What, nr, t), nil)
		}
	}
	// corruptions
	prefixByte := map[int]int{} // offset -> index inside a 4-byte read
	for _, s := range spans {
		if s[1] == 4 {
			for k := 0; k < 4; k++ {
				prefixByte[s[0]+k] = k + 1
			}
		}
	}
	pos := make([]int, 0, len(b))
	for i := range b {
		pos = append(pos, i)
	}
	if c.MaxCorrupt > 0 && len(pos) > c.MaxCorrupt {
		step := (len(pos) + c.MaxCorrupt - 1) / c.MaxCorrupt
		var sel []int
		for i := range pos {
			if i%step == 0 || i < 40 || i > len(pos)-40 || prefixByte[i] != 0 {
				sel = append(sel, i)
			}
		}
		pos = sel
	}
	spanStart := map[int]bool{}
	for _, s := range spans {
		spanStart[s[0]] = true
	}
	for _, i := range pos {
		masks := []byte{0x01, 0x80, 0xff}
		if spanStart[i] && !c.PrefixLowBits {
			// the first byte of an item carries the mode flags of a point: changing them changes the number of bytes the
			// item occupies, and the next length prefix is then read from the middle of an item (see above). Flag
			// patterns are enumerated exhaustively on single points and on the last item of streams.
			masks = []byte{0x01}
		}
		if k := prefixByte[i]; k != 0 {
			if k != 4 || !c.PrefixLowBits {
				continue
			}
			masks = []byte{0x01, 0x02}
		}
		for _, m := range masks {
			bb := append([]byte{}, b...)
			bb[i] ^= m
			rd, wr, _ := c.New()
			var e2 error
			var nr int64
			pn := Guard(func() { nr, e2 = rd(bytes.NewReader(bb)) })
			n++
			id := fmt.Sprintf("%s byte=%d/%d xor=%#x", c.What, i, len(b), m)
			if pn != "" {
				r.FailIn(g, key("panic-on-corruption"), id, pn, nil)
				continue
			}
			if e2 != nil {
				continue
			}
			if nr < 0 || nr > int64(len(bb)) {
				r.FailIn(g, key("byte-count"), id, fmt.Sprintf("%s %s.ReadFrom reports %d bytes read from a %d-byte input", name, c.What, nr, len(bb)), nil)
				continue
			}
			var again bytes.Buffer
			if _, err := wr(&again); err != nil || !bytes.Equal(again.Bytes(), bb[:nr]) {
				r.FailIn(g, key("accepted-string-not-canonical"), id, fmt.Sprintf("%s %s.ReadFrom accepts a corrupted encoding (%d bytes consumed) that is not the encoding of the value it returns (err=%v)", name, c.What, nr, err), nil)
			}
		}
	}
	return n
}
