package vlib

import (
	"math/big"
	"sync"
)

// Tower is the boring reference for F_p ⊂ F_p[x1]/(x1^d1 - n1) ⊂ ... : each level is a
// simple extension of the previous one by X^Deg - NonRes with NonRes in the previous level.
// Elements are flattened coefficient vectors ([]*big.Int, lowest coefficient first,
// recursively), all arithmetic is schoolbook over math/big.
type Tower struct {
	P      *big.Int
	Deg    []int        // Deg[0] = 1 (the prime field)
	NonRes [][]*big.Int // NonRes[i] is an element of level i-1 (nil for level 0)

	scMu sync.Mutex
	sc   map[int][][][]scTerm // tabulated basis products per level (see mulFast)
}

func NewTower(p *big.Int) *Tower {
	return &Tower{P: new(big.Int).Set(p), Deg: []int{1}, NonRes: [][]*big.Int{nil}}
}

// Extend adds a level X^deg - nonres (nonres given as small integers for the coefficients of
// the current top level).
func (t *Tower) Extend(deg int, nonres ...int64) *Tower {
	top := len(t.Deg) - 1
	nr := t.Zero(top)
	for i, v := range nonres {
		nr[i] = new(big.Int).Mod(big.NewInt(v), t.P)
	}
	t.Deg = append(t.Deg, deg)
	t.NonRes = append(t.NonRes, nr)
	return t
}

func (t *Tower) Top() int { return len(t.Deg) - 1 }

func (t *Tower) Dim(level int) int {
	d := 1
	for i := 1; i <= level; i++ {
		d *= t.Deg[i]
	}
	return d
}

func (t *Tower) Zero(level int) []*big.Int {
	z := make([]*big.Int, t.Dim(level))
	for i := range z {
		z[i] = new(big.Int)
	}
	return z
}

func (t *Tower) One(level int) []*big.Int {
	z := t.Zero(level)
	z[0].SetInt64(1)
	return z
}

func (t *Tower) FromInt(level int, v int64) []*big.Int {
	z := t.Zero(level)
	z[0].Mod(big.NewInt(v), t.P)
	return z
}

func (t *Tower) Copy(a []*big.Int) []*big.Int {
	z := make([]*big.Int, len(a))
	for i := range a {
		z[i] = new(big.Int).Set(a[i])
	}
	return z
}

func (t *Tower) Equal(a, b []*big.Int) bool {
	if len(a) != len(b) {
		return false
	}
	for i := range a {
		if a[i].Cmp(b[i]) != 0 {
			return false
		}
	}
	return true
}

func (t *Tower) IsZero(a []*big.Int) bool {
	for _, c := range a {
		if c.Sign() != 0 {
			return false
		}
	}
	return true
}

func (t *Tower) Add(a, b []*big.Int) []*big.Int {
	z := make([]*big.Int, len(a))
	for i := range a {
		z[i] = new(big.Int).Add(a[i], b[i])
		z[i].Mod(z[i], t.P)
	}
	return z
}

func (t *Tower) Sub(a, b []*big.Int) []*big.Int {
	z := make([]*big.Int, len(a))
	for i := range a {
		z[i] = new(big.Int).Sub(a[i], b[i])
		z[i].Mod(z[i], t.P)
	}
	return z
}

func (t *Tower) Neg(a []*big.Int) []*big.Int { return t.Sub(t.Zero0(len(a)), a) }

func (t *Tower) Zero0(n int) []*big.Int {
	z := make([]*big.Int, n)
	for i := range z {
		z[i] = new(big.Int)
	}
	return z
}

func (t *Tower) levelOf(n int) int {
	for l := 0; l < len(t.Deg); l++ {
		if t.Dim(l) == n {
			return l
		}
	}
	panic("tower: no level with this dimension")
}

// Mul multiplies two elements of the same level.
func (t *Tower) Mul(a, b []*big.Int) []*big.Int {
	return t.mulFast(t.levelOf(len(a)), a, b)
}

type scTerm struct {
	k int
	c *big.Int // nil = 1
}

// mulFast is the schoolbook definition (mul) tabulated: the products of basis vectors are
// computed once with mul and every product is then the bilinear expansion over that table.
// The table is cross-checked against mul on first use.
func (t *Tower) mulFast(level int, a, b []*big.Int) []*big.Int {
	if level == 0 {
		return t.mul(0, a, b)
	}
	t.scMu.Lock()
	if t.sc == nil {
		t.sc = map[int][][][]scTerm{}
	}
	tab, ok := t.sc[level]
	if !ok {
		d := t.Dim(level)
		tab = make([][][]scTerm, d)
		for i := 0; i < d; i++ {
			tab[i] = make([][]scTerm, d)
			ei := t.Zero(level)
			ei[i].SetInt64(1)
			for j := 0; j < d; j++ {
				ej := t.Zero(level)
				ej[j].SetInt64(1)
				pr := t.mul(level, ei, ej)
				for k, c := range pr {
					if c.Sign() == 0 {
						continue
					}
					if c.Cmp(big.NewInt(1)) == 0 {
						tab[i][j] = append(tab[i][j], scTerm{k, nil})
					} else {
						tab[i][j] = append(tab[i][j], scTerm{k, c})
					}
				}
			}
		}
		t.sc[level] = tab
		// self-check on two structured operands
		x, y := t.Zero(level), t.Zero(level)
		for i := range x {
			x[i].SetInt64(int64(3*i*i + 7*i + 11))
			y[i].Sub(t.P, big.NewInt(int64(5*i+2)))
		}
		t.scMu.Unlock()
		if !t.Equal(t.mulFast(level, x, y), t.mul(level, x, y)) {
			panic("tower model: tabulated product differs from the schoolbook definition")
		}
		t.scMu.Lock()
	}
	t.scMu.Unlock()
	d := len(a)
	acc := make([]*big.Int, d)
	for i := range acc {
		acc[i] = new(big.Int)
	}
	var m, m2 big.Int
	for i := 0; i < d; i++ {
		if a[i].Sign() == 0 {
			continue
		}
		for j := 0; j < d; j++ {
			if b[j].Sign() == 0 {
				continue
			}
			m.Mul(a[i], b[j])
			for _, tm := range tab[i][j] {
				if tm.c == nil {
					acc[tm.k].Add(acc[tm.k], &m)
				} else {
					m2.Mul(&m, tm.c)
					acc[tm.k].Add(acc[tm.k], &m2)
				}
			}
		}
	}
	for i := range acc {
		acc[i].Mod(acc[i], t.P)
	}
	return acc
}

func (t *Tower) mul(level int, a, b []*big.Int) []*big.Int {
	if level == 0 {
		z := new(big.Int).Mul(a[0], b[0])
		return []*big.Int{z.Mod(z, t.P)}
	}
	d := t.Deg[level]
	sub := t.Dim(level - 1)
	// schoolbook product of polynomials of degree < d with coefficients in level-1
	prod := make([][]*big.Int, 2*d-1)
	for i := range prod {
		prod[i] = t.Zero0(sub)
	}
	for i := 0; i < d; i++ {
		ai := a[i*sub : (i+1)*sub]
		for j := 0; j < d; j++ {
			bj := b[j*sub : (j+1)*sub]
			prod[i+j] = t.Add(prod[i+j], t.mul(level-1, ai, bj))
		}
	}
	// reduce X^d = nonres
	for k := 2*d - 2; k >= d; k-- {
		prod[k-d] = t.Add(prod[k-d], t.mul(level-1, prod[k], t.NonRes[level]))
	}
	z := make([]*big.Int, 0, d*sub)
	for i := 0; i < d; i++ {
		z = append(z, prod[i]...)
	}
	return z
}

// order of the multiplicative group of the given level plus one (= field size).
func (t *Tower) Size(level int) *big.Int {
	return new(big.Int).Exp(t.P, big.NewInt(int64(t.Dim(level))), nil)
}

// Exp computes a^k (k >= 0) by square and multiply.
func (t *Tower) Exp(a []*big.Int, k *big.Int) []*big.Int {
	level := t.levelOf(len(a))
	res := t.One(level)
	if k.Sign() < 0 {
		a = t.Inv(a)
		k = new(big.Int).Neg(k)
	}
	base := t.Copy(a)
	for i := k.BitLen() - 1; i >= 0; i-- {
		res = t.mulFast(level, res, res)
		if k.Bit(i) == 1 {
			res = t.mulFast(level, res, base)
		}
	}
	return res
}

// Inv returns a^-1 (0 for 0) by Fermat in the field of that level.
func (t *Tower) Inv(a []*big.Int) []*big.Int {
	level := t.levelOf(len(a))
	if t.IsZero(a) {
		return t.Zero(level)
	}
	if level == 0 {
		return []*big.Int{new(big.Int).ModInverse(a[0], t.P)}
	}
	// a^-1 = conj-product / norm, generically: a^(q-2) with q the field size (slow but boring)
	// faster and still simple: solve via the norm to the level below when Deg == 2
	if t.Deg[level] == 2 {
		sub := t.Dim(level - 1)
		a0, a1 := a[:sub], a[sub:]
		// (a0 + a1 X)(a0 - a1 X) = a0^2 - nr a1^2
		n := t.Sub(t.mul(level-1, a0, a0), t.mul(level-1, t.mul(level-1, a1, a1), t.NonRes[level]))
		ni := t.Inv(n)
		z := append(t.mul(level-1, a0, ni), t.Neg(t.mul(level-1, a1, ni))...)
		return z
	}
	if t.Deg[level] == 3 {
		// X^3 = n: (a0 + a1 X + a2 X^2)^-1 = (t0 + t1 X + t2 X^2)/N with the cofactor formulas
		sub := t.Dim(level - 1)
		a0, a1, a2 := a[:sub], a[sub:2*sub], a[2*sub:]
		m := func(x, y []*big.Int) []*big.Int { return t.mul(level-1, x, y) }
		n := t.NonRes[level]
		t0 := t.Sub(m(a0, a0), m(n, m(a1, a2)))
		t1 := t.Sub(m(n, m(a2, a2)), m(a0, a1))
		t2 := t.Sub(m(a1, a1), m(a0, a2))
		N := t.Add(m(a0, t0), m(n, t.Add(m(a2, t1), m(a1, t2))))
		ni := t.Inv(N)
		z := append(m(t0, ni), m(t1, ni)...)
		return append(z, m(t2, ni)...)
	}
	e := new(big.Int).Sub(t.Size(level), big.NewInt(2))
	return t.Exp(a, e)
}

// Frobenius: a^(p^k)
func (t *Tower) Frobenius(a []*big.Int, k int) []*big.Int {
	e := new(big.Int).Exp(t.P, big.NewInt(int64(k)), nil)
	return t.Exp(a, e)
}

// IsSquare via Euler in the field of that level.
func (t *Tower) IsSquare(a []*big.Int) bool {
	level := t.levelOf(len(a))
	if t.IsZero(a) {
		return true
	}
	e := new(big.Int).Rsh(new(big.Int).Sub(t.Size(level), big.NewInt(1)), 1)
	return t.Equal(t.Exp(a, e), t.One(level))
}

// Sqrt returns a square root (Tonelli-Shanks in the field of that level) or nil.
func (t *Tower) Sqrt(a []*big.Int) []*big.Int {
	level := t.levelOf(len(a))
	if t.IsZero(a) {
		return t.Zero(level)
	}
	if !t.IsSquare(a) {
		return nil
	}
	q1 := new(big.Int).Sub(t.Size(level), big.NewInt(1))
	s := 0
	m := new(big.Int).Set(q1)
	for m.Bit(0) == 0 {
		m.Rsh(m, 1)
		s++
	}
	// find a non-square z
	var z []*big.Int
	for k := int64(2); ; k++ {
		c := t.Zero(level)
		for i := range c { // a generic element (elements of proper subfields are always squares)
			c[i].SetInt64(k + int64(i)*(k+1))
		}
		if !t.IsSquare(c) {
			z = c
			break
		}
	}
	c := t.Exp(z, m)
	x := t.Exp(a, new(big.Int).Rsh(new(big.Int).Add(m, big.NewInt(1)), 1))
	b := t.Exp(a, m)
	r := s
	one := t.One(level)
	for !t.Equal(b, one) {
		// least i with b^(2^i) = 1
		i := 0
		bb := t.Copy(b)
		for !t.Equal(bb, one) {
			bb = t.mul(level, bb, bb)
			i++
		}
		cc := t.Copy(c)
		for j := 0; j < r-i-1; j++ {
			cc = t.mul(level, cc, cc)
		}
		x = t.mul(level, x, cc)
		c = t.mul(level, cc, cc)
		b = t.mul(level, b, c)
		r = i
	}
	return x
}

// Embed lifts an element of a lower level into `level` (constant coefficient).
func (t *Tower) Embed(a []*big.Int, level int) []*big.Int {
	z := t.Zero(level)
	for i := range a {
		z[i].Set(a[i])
	}
	return z
}

// ---------------------------------------------------------------------------------
// Short Weierstrass curve y^2 = x^3 + a x + b over a tower level; textbook affine law.
// ---------------------------------------------------------------------------------
type WPoint struct {
	Inf  bool
	X, Y []*big.Int
}

type WCurve struct {
	T     *Tower
	Level int
	A, B  []*big.Int
}

func (c *WCurve) Infinity() WPoint { return WPoint{Inf: true} }

func (c *WCurve) OnCurve(p WPoint) bool {
	if p.Inf {
		return true
	}
	t := c.T
	lhs := t.Mul(p.Y, p.Y)
	rhs := t.Add(t.Add(t.Mul(t.Mul(p.X, p.X), p.X), t.Mul(c.A, p.X)), c.B)
	return t.Equal(lhs, rhs)
}

func (c *WCurve) Neg(p WPoint) WPoint {
	if p.Inf {
		return p
	}
	return WPoint{X: c.T.Copy(p.X), Y: c.T.Neg(p.Y)}
}

func (c *WCurve) Equal(p, q WPoint) bool {
	if p.Inf || q.Inf {
		return p.Inf == q.Inf
	}
	return c.T.Equal(p.X, q.X) && c.T.Equal(p.Y, q.Y)
}

// Add is the chord-and-tangent law with all special cases.
func (c *WCurve) Add(p, q WPoint) WPoint {
	t := c.T
	if p.Inf {
		return q
	}
	if q.Inf {
		return p
	}
	var lam []*big.Int
	if t.Equal(p.X, q.X) {
		if !t.Equal(p.Y, q.Y) || t.IsZero(p.Y) {
			return WPoint{Inf: true}
		}
		three := t.FromInt(c.Level, 3)
		two := t.FromInt(c.Level, 2)
		num := t.Add(t.Mul(three, t.Mul(p.X, p.X)), c.A)
		lam = t.Mul(num, t.Inv(t.Mul(two, p.Y)))
	} else {
		lam = t.Mul(t.Sub(q.Y, p.Y), t.Inv(t.Sub(q.X, p.X)))
	}
	x3 := t.Sub(t.Sub(t.Mul(lam, lam), p.X), q.X)
	y3 := t.Sub(t.Mul(lam, t.Sub(p.X, x3)), p.Y)
	return WPoint{X: x3, Y: y3}
}

func (c *WCurve) Double(p WPoint) WPoint { return c.Add(p, p) }

// Mul is double-and-add on |k| with negation for k < 0.
func (c *WCurve) Mul(p WPoint, k *big.Int) WPoint {
	if k.Sign() < 0 {
		return c.Mul(c.Neg(p), new(big.Int).Neg(k))
	}
	res := WPoint{Inf: true}
	for i := k.BitLen() - 1; i >= 0; i-- {
		res = c.Double(res)
		if k.Bit(i) == 1 {
			res = c.Add(res, p)
		}
	}
	return res
}

// ---------------------------------------------------------------------------------
// Twisted Edwards curve a x^2 + y^2 = 1 + d x^2 y^2 over the prime field.
// ---------------------------------------------------------------------------------
type EPoint struct{ X, Y *big.Int }

type ECurve struct {
	P, A, D *big.Int
}

func (c *ECurve) m(v *big.Int) *big.Int { return v.Mod(v, c.P) }

func (c *ECurve) OnCurve(p EPoint) bool {
	x2 := c.m(new(big.Int).Mul(p.X, p.X))
	y2 := c.m(new(big.Int).Mul(p.Y, p.Y))
	lhs := c.m(new(big.Int).Add(new(big.Int).Mul(c.A, x2), y2))
	rhs := c.m(new(big.Int).Add(big.NewInt(1), new(big.Int).Mul(c.D, new(big.Int).Mul(x2, y2))))
	return lhs.Cmp(rhs) == 0
}

func (c *ECurve) Zero() EPoint { return EPoint{big.NewInt(0), big.NewInt(1)} }

func (c *ECurve) Neg(p EPoint) EPoint {
	return EPoint{c.m(new(big.Int).Neg(p.X)), new(big.Int).Set(p.Y)}
}

func (c *ECurve) Equal(p, q EPoint) bool { return p.X.Cmp(q.X) == 0 && p.Y.Cmp(q.Y) == 0 }

// Add: unified law x3 = (x1y2+y1x2)/(1+d x1x2y1y2), y3 = (y1y2 - a x1x2)/(1 - d x1x2y1y2)
func (c *ECurve) Add(p, q EPoint) EPoint {
	x1y2 := new(big.Int).Mul(p.X, q.Y)
	y1x2 := new(big.Int).Mul(p.Y, q.X)
	x1x2 := new(big.Int).Mul(p.X, q.X)
	y1y2 := new(big.Int).Mul(p.Y, q.Y)
	dxy := c.m(new(big.Int).Mul(c.D, c.m(new(big.Int).Mul(c.m(new(big.Int).Set(x1x2)), c.m(new(big.Int).Set(y1y2))))))
	nx := c.m(new(big.Int).Add(x1y2, y1x2))
	ny := c.m(new(big.Int).Sub(y1y2, new(big.Int).Mul(c.A, x1x2)))
	dx := c.m(new(big.Int).Add(big.NewInt(1), dxy))
	dy := c.m(new(big.Int).Sub(big.NewInt(1), dxy))
	// one inversion for both denominators: 1/dx = dy/(dx dy), 1/dy = dx/(dx dy)
	inv := new(big.Int).ModInverse(c.m(new(big.Int).Mul(dx, dy)), c.P)
	if inv == nil { // a zero denominator (operands outside the curve's complete domain): the defining formula divides by zero
		inv = new(big.Int)
	}
	x3 := c.m(new(big.Int).Mul(c.m(new(big.Int).Mul(nx, dy)), inv))
	y3 := c.m(new(big.Int).Mul(c.m(new(big.Int).Mul(ny, dx)), inv))
	return EPoint{x3, y3}
}

func (c *ECurve) Mul(p EPoint, k *big.Int) EPoint {
	if k.Sign() < 0 {
		return c.Mul(c.Neg(p), new(big.Int).Neg(k))
	}
	res := c.Zero()
	for i := k.BitLen() - 1; i >= 0; i-- {
		res = c.Add(res, res)
		if k.Bit(i) == 1 {
			res = c.Add(res, p)
		}
	}
	return res
}
