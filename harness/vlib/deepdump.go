package vlib

import (
	"fmt"
	"reflect"
	"sort"
	"strings"
)

// DeepDump renders the exact state of any value, following pointers and including
// unexported fields (read-only reflection). Function values and channels are rendered by
// kind only. Used for exact state keys of engine H and for before/after snapshots.
func DeepDump(v any) string {
	var sb strings.Builder
	dump(&sb, reflect.ValueOf(v), 0, map[uintptr]bool{})
	return sb.String()
}

// DeepDumpValue is DeepDump of an already reflected value (e.g. an unexported field)
func DeepDumpValue(v reflect.Value) string {
	var sb strings.Builder
	dump(&sb, v, 0, map[uintptr]bool{})
	return sb.String()
}

func dump(sb *strings.Builder, v reflect.Value, depth int, seen map[uintptr]bool) {
	if depth > 40 {
		sb.WriteString("<deep>")
		return
	}
	if !v.IsValid() {
		sb.WriteString("<nil>")
		return
	}
	switch v.Kind() {
	case reflect.Bool:
		fmt.Fprint(sb, v.Bool())
	case reflect.Int, reflect.Int8, reflect.Int16, reflect.Int32, reflect.Int64:
		fmt.Fprint(sb, v.Int())
	case reflect.Uint, reflect.Uint8, reflect.Uint16, reflect.Uint32, reflect.Uint64, reflect.Uintptr:
		fmt.Fprintf(sb, "%x", v.Uint())
	case reflect.Float32, reflect.Float64:
		fmt.Fprint(sb, v.Float())
	case reflect.String:
		fmt.Fprintf(sb, "%q", v.String())
	case reflect.Pointer:
		if v.IsNil() {
			sb.WriteString("nil")
			return
		}
		p := v.Pointer()
		if seen[p] {
			sb.WriteString("<cycle>")
			return
		}
		seen[p] = true
		sb.WriteString("&")
		dump(sb, v.Elem(), depth+1, seen)
		delete(seen, p)
	case reflect.Interface:
		if v.IsNil() {
			sb.WriteString("nil")
			return
		}
		sb.WriteString(v.Elem().Type().String() + ":")
		dump(sb, v.Elem(), depth+1, seen)
	case reflect.Slice:
		if v.IsNil() {
			sb.WriteString("nil[]")
			return
		}
		fallthrough
	case reflect.Array:
		if v.Type().Elem().Kind() == reflect.Uint8 {
			sb.WriteString("x")
			for i := 0; i < v.Len(); i++ {
				fmt.Fprintf(sb, "%02x", v.Index(i).Uint())
			}
			return
		}
		sb.WriteString("[")
		for i := 0; i < v.Len(); i++ {
			if i > 0 {
				sb.WriteString(" ")
			}
			dump(sb, v.Index(i), depth+1, seen)
		}
		sb.WriteString("]")
	case reflect.Struct:
		sb.WriteString("{")
		for i := 0; i < v.NumField(); i++ {
			if i > 0 {
				sb.WriteString(" ")
			}
			sb.WriteString(v.Type().Field(i).Name + ":")
			dump(sb, v.Field(i), depth+1, seen)
		}
		sb.WriteString("}")
	case reflect.Map:
		keys := v.MapKeys()
		strs := make([]string, len(keys))
		for i, k := range keys {
			var kb, vb strings.Builder
			dump(&kb, k, depth+1, seen)
			dump(&vb, v.MapIndex(k), depth+1, seen)
			strs[i] = kb.String() + "=" + vb.String()
		}
		sort.Strings(strs)
		sb.WriteString("map[" + strings.Join(strs, " ") + "]")
	default:
		sb.WriteString("<" + v.Kind().String() + ">")
	}
}
