package vlib

import (
	"io"
	"sync"
)

// ChunkReader hands out at most N bytes per Read call (N <= 0: as much as fits) and
// counts what it handed out.
type ChunkReader struct {
	B     []byte
	N     int
	Given int
}

func (c *ChunkReader) Read(p []byte) (int, error) {
	if len(c.B) == 0 {
		return 0, io.EOF
	}
	n := len(p)
	if c.N > 0 && n > c.N {
		n = c.N
	}
	if n > len(c.B) {
		n = len(c.B)
	}
	copy(p, c.B[:n])
	c.B = c.B[n:]
	c.Given += n
	return n, nil
}

// CountWriter counts and stores what was written.
type CountWriter struct {
	B []byte
}

func (c *CountWriter) Write(p []byte) (int, error) { c.B = append(c.B, p...); return len(p), nil }

// BigAlloc serialises the cases that allocate hundreds of megabytes (one at a time per process).
var BigAlloc sync.Mutex
