// Package vlib is the shared plumbing of every check driver: command line, tiers,
// seeds, case groups (unit of replay), violation bookkeeping against
// /verif/KNOWN_FINDINGS.txt, determinism re-execution, evidence files and exit codes.
package vlib

import (
	"bufio"
	"crypto/sha256"
	"encoding/binary"
	"encoding/json"
	"fmt"
	"hash"
	"os"
	"os/exec"
	"path/filepath"
	"runtime"
	"runtime/debug"
	"sort"
	"strconv"
	"strings"
	"sync"
	"syscall"
	"time"
)

const Root = "/verif"

// outRoot: where evidence and replay files go (VERIF_OUT_DIR redirects them for mutation sweeps that must not
// touch the committed evidence; registered commands never set it)
func outRoot() string {
	if d := os.Getenv("VERIF_OUT_DIR"); d != "" {
		return d
	}
	return Root
}

type violation struct {
	Key    string `json:"key"`   // stable class key (what KNOWN_FINDINGS lists)
	Group  string `json:"group"` // replay unit
	CaseID string `json:"case"`  // specific failing case inside the group
	Desc   string `json:"desc"`
	Count  int    `json:"count"`
	Detail any    `json:"detail,omitempty"`
}

type knownEntry struct {
	pattern string
	text    string
}

// Run is one invocation of one check.
type Run struct {
	ID    string
	Level string
	Tier  string
	seed  int64

	mu          sync.Mutex
	start       time.Time
	deadline    time.Time
	evals       int64
	states      int64
	transitions int64
	traces      int64
	tags        map[string]struct{}
	samples     []any
	extra       map[string]any
	assumptions []string
	rule        string
	exhaustive  bool
	capsHit     []string

	viol   map[string]*violation // by key
	vorder []string
	known  []knownEntry
	groups map[string]func()

	obsOut string
	obs    map[string]*obsGroup

	shard       string // non-empty: this process is a worker for one group; Finish prints a JSON report
	replayGroup string
	replayCase  string
	replayKey   string
	curGroup    string // only meaningful for sequential groups
	recheck     bool
	reFound     bool
}

// Start parses "<tier>" or "--replay <file>" from os.Args.
func Start(id, level string) *Run {
	r := &Run{ID: id, Level: level, Tier: "quick", start: time.Now(), tags: map[string]struct{}{},
		extra: map[string]any{}, viol: map[string]*violation{}, groups: map[string]func(){}, exhaustive: true}
	args := os.Args[1:]
	for i := 0; i < len(args); i++ {
		switch args[i] {
		case "quick", "thorough":
			r.Tier = args[i]
		case "--shard":
			if i+1 >= len(args) {
				r.Harness("missing shard name")
			}
			r.shard = args[i+1]
			i++
		case "--replay":
			if i+1 >= len(args) {
				r.Harness("missing replay path")
			}
			b, err := os.ReadFile(args[i+1])
			if err != nil {
				r.Harness("cannot read replay file: " + err.Error())
			}
			var v violation
			if err := json.Unmarshal(b, &v); err != nil {
				r.Harness("bad replay file: " + err.Error())
			}
			r.replayGroup, r.replayCase, r.replayKey = v.Group, v.CaseID, v.Key
			if t := os.Getenv("VERIF_TIER"); t == "thorough" {
				r.Tier = t
			}
			var m map[string]any
			json.Unmarshal(b, &m)
			if t, ok := m["tier"].(string); ok && (t == "quick" || t == "thorough") {
				r.Tier = t
			}
			i++
		}
	}
	if t := os.Getenv("VERIF_TIER"); r.replayGroup == "" && (t == "quick" || t == "thorough") && len(args) == 0 {
		r.Tier = t
	}
	r.seed = 1
	if s := os.Getenv("VERIF_SEED"); s != "" {
		if v, err := strconv.ParseInt(s, 10, 64); err == nil {
			r.seed = v
		}
	}
	budget := 150 * time.Second
	if r.Tier == "thorough" {
		budget = 25 * time.Minute
	}
	if s := os.Getenv("VERIF_BUDGET_S"); s != "" {
		if v, err := strconv.Atoi(s); err == nil {
			budget = time.Duration(v) * time.Second
		}
	}
	r.deadline = r.start.Add(budget)
	r.obsOut = os.Getenv("VERIF_OBS_OUT")
	r.obs = map[string]*obsGroup{}
	r.loadKnown()
	return r
}

func (r *Run) Quick() bool     { return r.Tier == "quick" }
func (r *Run) Thorough() bool  { return r.Tier == "thorough" }
func (r *Run) Seed() int64     { return r.seed }
func (r *Run) Replaying() bool { return r.replayGroup != "" }

// RecheckDone is true while a group is being re-executed for determinism and the case
// looked for has already reproduced; long groups may poll it to return early.
func (r *Run) RecheckDone() bool {
	r.mu.Lock()
	defer r.mu.Unlock()
	return r.recheck && r.reFound
}

// ---- observation digests (engine K): when VERIF_OBS_OUT is set, every driver output
// passed to Observe is folded into a per-group SHA-256; the C09 orchestrator runs the same
// driver under each CPU configuration and compares the digests group by group. Within a
// group, Observe must be called in a deterministic order (group bodies are sequential).
type obsGroup struct {
	h hash.Hash
	n int64
	v *os.File
}

func (r *Run) ObsMode() bool { return r.obsOut != "" }

func (r *Run) Observe(group string, data []byte) {
	if r.obsOut == "" {
		return
	}
	r.mu.Lock()
	if r.recheck {
		r.mu.Unlock()
		return
	}
	g, ok := r.obs[group]
	if !ok {
		g = &obsGroup{h: sha256.New()}
		for _, v := range strings.Split(os.Getenv("VERIF_OBS_VERBOSE"), ",") {
			if v != "" && v == group {
				g.v, _ = os.Create(r.obsOut + ".verbose." + sanitize(group))
			}
		}
		r.obs[group] = g
	}
	r.mu.Unlock()
	var l [4]byte
	binary.BigEndian.PutUint32(l[:], uint32(len(data)))
	g.h.Write(l[:])
	g.h.Write(data)
	g.n++
	if g.v != nil {
		fmt.Fprintf(g.v, "%d %x\n", g.n, data)
	}
}

// ObserveStr is Observe for short textual outcomes ("panic", "err", ...).
func (r *Run) ObserveStr(group, s string) { r.Observe(group, []byte(s)) }

func (r *Run) writeObs() {
	if r.obsOut == "" {
		return
	}
	out := map[string]any{}
	for k, g := range r.obs {
		out[k] = map[string]any{"n": g.n, "sha256": fmt.Sprintf("%x", g.h.Sum(nil))}
		if g.v != nil {
			g.v.Close()
		}
	}
	b, _ := json.MarshalIndent(out, "", " ")
	if err := os.WriteFile(r.obsOut, b, 0o644); err != nil {
		r.Harness("cannot write observations: " + err.Error())
	}
}

// Expired reports whether the internal budget is used up; callers stop exploring and the
// evidence says exhaustive:false with the cap that was hit (never a violation).
func (r *Run) Expired(what string) bool {
	r.mu.Lock()
	re := r.recheck
	r.mu.Unlock()
	if re {
		// a determinism re-execution always runs as far as the original run did
		return false
	}
	if time.Now().After(r.deadline) {
		r.Cap("time budget reached in " + what)
		return true
	}
	return false
}

func (r *Run) Cap(what string) {
	r.mu.Lock()
	defer r.mu.Unlock()
	r.exhaustive = false
	for _, c := range r.capsHit {
		if c == what {
			return
		}
	}
	r.capsHit = append(r.capsHit, what)
}

func (r *Run) loadKnown() {
	f, err := os.Open(filepath.Join(Root, "KNOWN_FINDINGS.txt"))
	if err != nil {
		return
	}
	defer f.Close()
	sc := bufio.NewScanner(f)
	sc.Buffer(make([]byte, 1<<20), 1<<20)
	for sc.Scan() {
		line := strings.TrimSpace(sc.Text())
		if !strings.HasPrefix(line, "known:") {
			continue
		}
		fs := strings.Fields(line[len("known:"):])
		if len(fs) < 2 || fs[0] != "property="+r.ID || !strings.HasPrefix(fs[1], "key=") {
			continue
		}
		r.known = append(r.known, knownEntry{pattern: fs[1][4:], text: strings.Join(fs[2:], " ")})
	}
}

func globMatch(pat, s string) bool {
	// '*' matches any run of characters (including '/'); everything else literal.
	parts := strings.Split(pat, "*")
	if len(parts) == 1 {
		return pat == s
	}
	if !strings.HasPrefix(s, parts[0]) {
		return false
	}
	s = s[len(parts[0]):]
	for i := 1; i < len(parts)-1; i++ {
		j := strings.Index(s, parts[i])
		if j < 0 {
			return false
		}
		s = s[j+len(parts[i]):]
	}
	return strings.HasSuffix(s, parts[len(parts)-1])
}

func (r *Run) knownText(key string) (string, bool) {
	for _, k := range r.known {
		if globMatch(k.pattern, key) {
			return k.text, true
		}
	}
	return "", false
}

// Group registers and runs a replayable unit of exploration. Groups must be deterministic
// functions of (tier, seed). In replay mode only the named group runs.
func (r *Run) Group(name string, f func()) {
	r.groups[name] = f
	if r.replayGroup != "" && r.replayGroup != name {
		return
	}
	r.runGroup(name, f)
}

// Parallel runs the given group bodies concurrently (at most GOMAXPROCS at a time). Bodies
// must report through FailIn(group, ...) — the "current group" is not defined in here.
func (r *Run) Parallel(names []string, body func(group string)) {
	sem := make(chan struct{}, runtime.GOMAXPROCS(0))
	var wg sync.WaitGroup
	for _, n := range names {
		n := n
		f := func() { body(n) }
		r.groups[n] = f
		if r.replayGroup != "" && r.replayGroup != n {
			continue
		}
		wg.Add(1)
		sem <- struct{}{}
		go func() {
			defer wg.Done()
			defer func() { <-sem }()
			defer func() {
				if e := recover(); e != nil {
					if _, ok := e.(harnessAbort); ok {
						panic(e)
					}
					r.FailIn(n, "panic/"+n, "group", fmt.Sprintf("unrecovered panic in group %s: %v\n%s", n, e, trimStack(debug.Stack())), nil)
				}
			}()
			t0 := time.Now()
			f()
			if d := time.Since(t0).Seconds(); d > 20 {
				r.mu.Lock()
				gw, _ := r.extra["slow_groups_wall_s"].(map[string]float64)
				if gw == nil {
					gw = map[string]float64{}
				}
				gw[n] = float64(int(d))
				r.extra["slow_groups_wall_s"] = gw
				r.mu.Unlock()
			}
		}()
	}
	wg.Wait()
}

func (r *Run) runGroup(name string, f func()) {
	r.curGroup = name
	defer func() {
		if e := recover(); e != nil {
			if _, ok := e.(harnessAbort); ok {
				panic(e)
			}
			r.Fail("panic/"+name, "group", fmt.Sprintf("unrecovered panic in group %s: %v\n%s", name, e, trimStack(debug.Stack())), nil)
		}
	}()
	f()
}

func trimStack(b []byte) string {
	s := string(b)
	if len(s) > 3000 {
		s = s[:3000]
	}
	return s
}

// Add counts executed cases.
func (r *Run) Add(n int) {
	r.mu.Lock()
	if !r.recheck {
		r.evals += int64(n)
	}
	r.mu.Unlock()
}
func (r *Run) AddStates(n int) {
	r.mu.Lock()
	if !r.recheck {
		r.states += int64(n)
	}
	r.mu.Unlock()
}
func (r *Run) AddTransitions(n int) {
	r.mu.Lock()
	if !r.recheck {
		r.transitions += int64(n)
	}
	r.mu.Unlock()
}
func (r *Run) AddTraces(n int) {
	r.mu.Lock()
	if !r.recheck {
		r.traces += int64(n)
	}
	r.mu.Unlock()
}

// Tag records a distinct non-trivial case class (distinct_nontrivial = number of tags).
func (r *Run) Tag(t string) {
	r.mu.Lock()
	r.tags[t] = struct{}{}
	r.mu.Unlock()
}

func (r *Run) Sample(v any) {
	r.mu.Lock()
	if len(r.samples) < 12 {
		r.samples = append(r.samples, v)
	}
	r.mu.Unlock()
}
func (r *Run) Set(k string, v any) { r.mu.Lock(); r.extra[k] = v; r.mu.Unlock() }

// Note records v under extra[k][sub] (a per-item coverage table in the evidence).
func (r *Run) Note(k, sub string, v any) {
	r.mu.Lock()
	m, _ := r.extra[k].(map[string]any)
	if m == nil {
		m = map[string]any{}
		r.extra[k] = m
	}
	m[sub] = v
	r.mu.Unlock()
}
func (r *Run) Inc(k string, n int64) {
	r.mu.Lock()
	if r.recheck {
		r.mu.Unlock()
		return
	}
	old, _ := r.extra[k].(int64)
	r.extra[k] = old + n
	r.mu.Unlock()
}
func (r *Run) Rule(s string)   { r.rule = s }
func (r *Run) Assume(s string) { r.assumptions = append(r.assumptions, s) }

// Fail records a violation. key = stable class (matched against KNOWN_FINDINGS),
// caseID = the specific failing case inside the current group.
func (r *Run) Fail(key, caseID, desc string, detail any) {
	r.FailIn(r.curGroup, key, caseID, desc, detail)
}

func (r *Run) FailIn(group, key, caseID, desc string, detail any) {
	r.mu.Lock()
	defer r.mu.Unlock()
	if r.recheck {
		if key == r.replayKey && caseID == r.replayCase {
			r.reFound = true
		}
		return
	}
	if r.replayGroup != "" && (caseID != r.replayCase || key != r.replayKey) {
		return
	}
	v, ok := r.viol[key]
	if !ok {
		v = &violation{Key: key, Group: group, CaseID: caseID, Desc: desc, Detail: detail}
		r.viol[key] = v
		r.vorder = append(r.vorder, key)
	}
	v.Count++
}

// Guard runs f and converts a panic into the returned string (empty if no panic).
func Guard(f func()) (p string) {
	defer func() {
		if e := recover(); e != nil {
			if _, ok := e.(harnessAbort); ok {
				panic(e)
			}
			p = fmt.Sprint(e)
			if len(p) > 300 {
				p = p[:300]
			}
			if p == "" {
				p = "panic"
			}
		}
	}()
	f()
	return ""
}

type harnessAbort struct{}

// Harness reports a fault of the machinery itself: exit 2, never a VIOLATION line.
func (r *Run) Harness(msg string) {
	fmt.Printf("HARNESS-ERROR check=%s %s\n", r.ID, msg)
	os.Exit(2)
}

// Sanitize maps a key to a file-name-safe string.
func Sanitize(s string) string { return sanitize(s) }

func sanitize(s string) string {
	var b strings.Builder
	for _, c := range s {
		if c >= 'a' && c <= 'z' || c >= 'A' && c <= 'Z' || c >= '0' && c <= '9' || c == '-' || c == '_' || c == '.' {
			b.WriteRune(c)
		} else {
			b.WriteByte('_')
		}
	}
	out := b.String()
	if len(out) > 120 {
		out = out[:120]
	}
	return out
}

// ---- worker processes: a driver re-executes itself with "--shard <group> <tier>" to run
// one group in its own process (the scheduler of engine S is process-global; heavy groups
// also get memory isolation). The worker prints one JSON report, the parent merges it.
type shardReport struct {
	Evals       int64          `json:"evals"`
	States      int64          `json:"states"`
	Transitions int64          `json:"transitions"`
	Traces      int64          `json:"traces"`
	Tags        []string       `json:"tags"`
	Samples     []any          `json:"samples"`
	Extra       map[string]any `json:"extra"`
	Caps        []string       `json:"caps"`
	Viol        []*violation   `json:"viol"`
	Obs         map[string]any `json:"obs"`
}

func (r *Run) Shard() string { return r.shard }

func (r *Run) finishShard() {
	rep := shardReport{Evals: r.evals, States: r.states, Transitions: r.transitions, Traces: r.traces, Samples: r.samples, Extra: r.extra, Caps: r.capsHit}
	for t := range r.tags {
		rep.Tags = append(rep.Tags, t)
	}
	sort.Strings(rep.Tags)
	for _, k := range r.vorder {
		rep.Viol = append(rep.Viol, r.viol[k])
	}
	b, err := json.Marshal(rep)
	if err != nil {
		r.Harness("shard report: " + err.Error())
	}
	fmt.Printf("SHARD-REPORT %s\n", b)
	os.Exit(0)
}

// RunShard executes group `name` in a worker process and merges its report. extraEnv may be nil.
func (r *Run) RunShard(name string, memLimitMB int, extraEnv []string) {
	args := []string{"--shard", name, r.Tier}
	cmd := exec.Command(os.Args[0], args...)
	if memLimitMB > 0 {
		// hard address-space limit: an allocation driven by untrusted input must fail fast (Go's
		// "out of memory" fatal error is unrecoverable and would otherwise take the whole sandbox along)
		sh := fmt.Sprintf("ulimit -v %d; exec \"$0\" \"$@\"", memLimitMB*1024)
		cmd = exec.Command("/bin/sh", append([]string{"-c", sh, os.Args[0]}, args...)...)
	}
	budget := int(time.Until(r.deadline).Seconds())
	if budget < 5 {
		budget = 5
	}
	cmd.Env = append(os.Environ(), fmt.Sprintf("VERIF_SEED=%d", r.seed), fmt.Sprintf("VERIF_BUDGET_S=%d", budget))
	cmd.Env = append(cmd.Env, extraEnv...)
	if memLimitMB > 0 {
		cmd.Env = append(cmd.Env, fmt.Sprintf("GOMEMLIMIT=%dMiB", memLimitMB))
	}
	var stderr strings.Builder
	cmd.Stderr = &stderr
	// generous wall-clock guard against a worker that never returns (never a violation by itself)
	guard := time.Duration(budget)*time.Second*3 + 10*time.Minute
	timer := time.AfterFunc(guard, func() {
		if cmd.Process != nil {
			cmd.Process.Signal(syscall.SIGQUIT) // goroutine dump on stderr
			time.Sleep(2 * time.Second)
			cmd.Process.Kill()
		}
	})
	out, err := cmd.Output()
	timedOut := !timer.Stop()
	var rep shardReport
	found := false
	for _, line := range strings.Split(string(out), "\n") {
		if strings.HasPrefix(line, "SHARD-REPORT ") {
			if json.Unmarshal([]byte(line[len("SHARD-REPORT "):]), &rep) == nil {
				found = true
			}
		}
	}
	if !found {
		se := stderr.String()
		os.MkdirAll(filepath.Join(Root, ".work/crash"), 0o755)
		os.WriteFile(filepath.Join(Root, ".work/crash", sanitize(name)+".stderr"), []byte(se), 0o644)
		if len(se) > 2500 {
			se = se[:1200] + "\n...\n" + se[len(se)-1200:]
		}
		if timedOut {
			r.Cap("worker for " + name + " did not finish within its guard time and was killed (no verdict for this group)")
			fmt.Printf("NOTE check=%s worker %s killed after %v; see .work/crash\n", r.ID, name, guard)
			return
		}
		if strings.Contains(se, "panic:") || strings.Contains(se, "fatal error:") {
			// a crash of the worker inside library code is an observation about the library
			r.FailIn(name, "crash/"+name, "worker", "worker process for "+name+" crashed: "+se, nil)
			return
		}
		r.Harness(fmt.Sprintf("worker for %s produced no report (err=%v): %s", name, err, se))
	}
	r.mu.Lock()
	rc := r.recheck
	r.mu.Unlock()
	if !rc {
		r.Add(int(rep.Evals))
		r.AddStates(int(rep.States))
		r.AddTransitions(int(rep.Transitions))
		r.AddTraces(int(rep.Traces))
		for _, t := range rep.Tags {
			r.Tag(t)
		}
		for _, s := range rep.Samples {
			r.Sample(s)
		}
		for k, v := range rep.Extra {
			r.Set(k, v)
		}
		for _, c := range rep.Caps {
			r.Cap(c)
		}
	}
	for _, v := range rep.Viol {
		for i := 0; i < v.Count; i++ {
			r.FailIn(name, v.Key, v.CaseID, v.Desc, v.Detail)
			if i > 2 {
				break
			}
		}
	}
}

// RunRacePass executes /verif/.work/bin/race <prop> (built with -race from the current tree
// by the check script) and turns every distinct data-race report into a violation keyed by
// the two access sites. Race reports are exempt from the re-execution rule.
func (r *Run) RunRacePass(prop string) {
	logBase := filepath.Join(Root, ".work/racelog", prop)
	os.MkdirAll(filepath.Dir(logBase), 0o755)
	old, _ := filepath.Glob(logBase + ".*")
	for _, f := range old {
		os.Remove(f)
	}
	cmd := exec.Command(filepath.Join(Root, ".work/bin/race"), prop)
	cmd.Env = append(os.Environ(), "GORACE=halt_on_error=0 log_path="+logBase+" history_size=2")
	out, err := cmd.CombinedOutput()
	runs := 0
	for _, l := range strings.Split(string(out), "\n") {
		if strings.HasPrefix(l, "RACE-PASS-DONE") {
			fmt.Sscanf(l[strings.Index(l, "runs="):], "runs=%d", &runs)
		}
		if strings.HasPrefix(l, "RACE-PASS-PANIC") {
			r.FailIn("race", "race-pass/panic/"+prop, l, "free-running pass: "+l, nil)
		}
	}
	if runs == 0 {
		r.Harness(fmt.Sprintf("race pass for %s did not complete: %v %s", prop, err, tailStr(string(out), 800)))
	}
	r.Set("race_pass_runs", runs)
	r.Tag("race-pass/" + prop)
	logs, _ := filepath.Glob(logBase + ".*")
	seen := map[string]bool{}
	for _, f := range logs {
		b, _ := os.ReadFile(f)
		for _, rep := range strings.Split(string(b), "WARNING: DATA RACE")[1:] {
			// key: the first library frame of each of the two accesses
			var sites []string
			for _, blk := range strings.Split(rep, "\n\n") {
				if !(strings.Contains(blk, "Write at") || strings.Contains(blk, "Read at") || strings.Contains(blk, "Previous write") || strings.Contains(blk, "Previous read")) {
					continue
				}
				var fr []string
				for _, ln := range strings.Split(blk, "\n") {
					ln = strings.TrimSpace(ln)
					if strings.HasPrefix(ln, "github.com/consensys/gnark-crypto/") && !strings.Contains(ln, "verifsched") {
						fn := strings.TrimSuffix(strings.TrimPrefix(ln, "github.com/consensys/gnark-crypto/"), "()")
						fr = append(fr, fn)
						if len(fr) == 2 {
							break
						}
					}
				}
				if len(fr) > 0 {
					sites = append(sites, strings.Join(fr, "<"))
				}
			}
			sort.Strings(sites)
			key := "race/" + strings.Join(sites, "~")
			if seen[key] {
				continue
			}
			seen[key] = true
			r.FailIn("race", key, key, "data race reported by the free-running -race pass: "+tailStr(rep, 1200), nil)
		}
	}
}

func tailStr(s string, n int) string {
	if len(s) > n {
		return s[:n]
	}
	return s
}

// Finish re-executes unknown violations for determinism, writes evidence and exits.
func (r *Run) Finish() {
	if r.shard != "" {
		r.finishShard()
	}
	wall := time.Since(r.start).Seconds()
	nviol := 0
	var lines, unrepro []string
	nun := 0
	sort.Strings(r.vorder)
	for _, key := range r.vorder {
		v := r.viol[key]
		if txt, ok := r.knownText(key); ok {
			lines = append(lines, fmt.Sprintf("KNOWN-FINDING: property=%s key=%s %s (cases=%d)", r.ID, key, txt, v.Count))
			continue
		}
		// determinism: the failing case must fail again when its group is re-run, twice.
		// (re-executions stop after 5 minutes in total: later observations are then reported as they were seen)
		// (observations of the free-running -race pass are exempt: a data-race report names two unordered accesses and is
		// sound on its own, and a wrong result seen under real concurrency cannot be forced to happen again)
		raceObs := strings.HasPrefix(key, "race/") || strings.HasPrefix(key, "race-pass/")
		if f, ok := r.groups[v.Group]; ok && !raceObs && r.replayGroup == "" && time.Since(r.start).Seconds()-wall < 300 {
			for k := 0; k < 2; k++ {
				r.mu.Lock()
				r.recheck, r.reFound, r.replayKey, r.replayCase = true, false, v.Key, v.CaseID
				r.mu.Unlock()
				r.runGroup(v.Group, f)
				r.mu.Lock()
				found := r.reFound
				r.recheck = false
				r.replayKey, r.replayCase = "", ""
				r.mu.Unlock()
				if !found {
					unrepro = append(unrepro, fmt.Sprintf("UNREPRODUCIBLE check=%s key=%s case=%s did not fail again on re-execution %d (not reported as a violation): %s", r.ID, key, v.CaseID, k+1, oneLine(v.Desc)))
					break
				}
			}
		}
		if len(unrepro) > nun {
			nun = len(unrepro)
			continue
		}
		nviol++
		dir := filepath.Join(outRoot(), "replay", r.ID)
		os.MkdirAll(dir, 0o755)
		path := filepath.Join(dir, sanitize(key)+".json")
		m := map[string]any{"property": r.ID, "key": v.Key, "group": v.Group, "case": v.CaseID, "desc": v.Desc, "count": v.Count, "tier": r.Tier, "seed": r.seed, "detail": v.Detail}
		b, _ := json.MarshalIndent(m, "", " ")
		os.WriteFile(path, b, 0o644)
		lines = append(lines, fmt.Sprintf("VIOLATION property=%s replay=%s key=%s cases=%d :: %s", r.ID, path, key, v.Count, oneLine(v.Desc)))
	}
	if r.replayGroup == "" && r.obsOut == "" {
		r.writeEvidence(wall, nviol)
	}
	r.writeObs()
	fmt.Printf("check=%s tier=%s seed=%d evaluations=%d states=%d transitions=%d distinct_tags=%d exhaustive=%v caps=%v wall=%.1fs\n",
		r.ID, r.Tier, r.seed, r.evals, r.states, r.transitions, len(r.tags), r.exhaustive, r.capsHit, wall)
	for _, l := range lines {
		fmt.Println(l)
	}
	for _, l := range unrepro {
		fmt.Println(l)
	}
	if nviol > 0 {
		os.Exit(1)
	}
	if len(unrepro) > 0 {
		fmt.Printf("HARNESS-ERROR check=%s %d observation(s) could not be reproduced\n", r.ID, len(unrepro))
		os.Exit(2)
	}
	if r.replayGroup != "" {
		fmt.Printf("replay: case %q of group %q did not violate\n", r.replayCase, r.replayGroup)
	}
	os.Exit(0)
}

func oneLine(s string) string {
	s = strings.ReplaceAll(s, "\n", " | ")
	if len(s) > 400 {
		s = s[:400] + "..."
	}
	return s
}

func (r *Run) writeEvidence(wall float64, nviol int) {
	cov := map[string]any{}
	for k, v := range r.extra {
		cov[k] = v
	}
	cov["evaluations"] = r.evals
	cov["distinct_nontrivial"] = len(r.tags)
	cov["rule"] = r.rule
	if len(r.samples) == 0 {
		r.samples = append(r.samples, "no sample recorded")
	}
	cov["samples"] = r.samples
	cov["exhaustive"] = r.exhaustive
	if len(r.capsHit) > 0 {
		cov["caps_hit"] = r.capsHit
	}
	if r.Level == "model_checking" {
		cov["states"] = r.states
		cov["transitions"] = r.transitions
		cov["traces_validated_against_impl"] = r.traces
	}
	known := []string{}
	for _, key := range r.vorder {
		if _, ok := r.knownText(key); ok {
			known = append(known, key)
		}
	}
	cov["known_findings_reproduced"] = known
	ev := map[string]any{
		"property_id": r.ID, "tier": r.Tier, "seed": r.seed, "level": r.Level, "coverage": cov,
		"assumptions": r.assumptions, "wall_s": wall, "violations": nviol,
	}
	if r.assumptions == nil {
		ev["assumptions"] = []string{}
	}
	b, err := json.MarshalIndent(ev, "", " ")
	if err != nil {
		r.Harness("evidence marshal: " + err.Error())
	}
	os.MkdirAll(filepath.Join(outRoot(), "evidence"), 0o755)
	if err := os.WriteFile(filepath.Join(outRoot(), "evidence", r.ID+".json"), b, 0o644); err != nil {
		r.Harness("evidence write: " + err.Error())
	}
}
