package vlib

import (
	"fmt"
	"math/big"
	"reflect"
	"sort"
	"strings"
)

// AliasSpec drives CheckAlias for one receiver type: every exported method of *T whose operands can be
// built is called under every set partition of {receiver, same-typed operands} (objects of one block are
// the same object) and must (1) compute the value it computes on pairwise distinct objects holding the
// same initial values and (2) leave the operands that are not the receiver unchanged.
type AliasSpec struct {
	Prefix string // key prefix, e.g. "alias/bn254/fr.Element"
	Values []any  // menu: pointers to values of T (for slice types: pointers to slices of equal length)
	// sample arguments for operand types other than T (pointer types: pointer to a value; by-value types: pointer to the value to copy)
	Others map[reflect.Type][]any
	Skip   map[string]bool
	// Only, when set, restricts the enumeration to these methods
	Only map[string]bool
	// Equal overrides the comparison of two results (default: the type's Equal method if any, else the deep dump)
	Equal func(a, b any) bool
	// MaxValues bounds the menu used per block (0 = all)
	MaxValues int
}

type aliasStats struct {
	Interior []string // methods whose result changes when a sub-typed operand points into the receiver (recorded only)
	Methods  []string
	Skipped  []string
	Calls    int
	Patterns int
}

var aliasSkipNames = map[string]bool{"SetRandom": true, "MustSetRandom": true, "String": true, "Text": true, "SetString": true, "Marshal": true, "Unmarshal": true,
	"SetBytes": true, "SetBytesCanonical": true, "Bytes": true, "RawBytes": true, "SetInterface": true, "SetBigInt": true, "SetUint64": true, "SetInt64": true,
	"WriteTo": true, "ReadFrom": true, "AsyncReadFrom": true, "MarshalBinary": true, "UnmarshalBinary": true, "MarshalJSON": true, "UnmarshalJSON": true,
	"BigInt": true, "Uint64": true, "Hash": true, "Len": true, "Less": true, "Swap": true, "WriteRawTo": true, "UnsafeReadFrom": true, "ReadFromRaw": true, "SetOne": true, "SetZero": true,
	"NotEqual": true, "Bits": true, "FitsOnOneWord": true, "IsUint64": true, "BitLen": true, "Clone": true}

func setPartitions(n int) [][]int {
	// restricted growth strings
	var out [][]int
	cur := make([]int, n)
	var rec func(i, maxb int)
	rec = func(i, maxb int) {
		if i == n {
			out = append(out, append([]int{}, cur...))
			return
		}
		for b := 0; b <= maxb+1; b++ {
			cur[i] = b
			m := maxb
			if b > maxb {
				m = b
			}
			rec(i+1, m)
		}
	}
	cur[0] = 0
	if n > 0 {
		rec(1, 0)
	}
	return out
}

func cloneVal(p any) reflect.Value {
	v := reflect.ValueOf(p).Elem()
	n := reflect.New(v.Type())
	if v.Kind() == reflect.Slice {
		s := reflect.MakeSlice(v.Type(), v.Len(), v.Len())
		reflect.Copy(s, v)
		// deep copy one more level for slices of slices
		if v.Type().Elem().Kind() == reflect.Slice {
			for i := 0; i < v.Len(); i++ {
				in := reflect.MakeSlice(v.Type().Elem(), v.Index(i).Len(), v.Index(i).Len())
				reflect.Copy(in, v.Index(i))
				s.Index(i).Set(in)
			}
		}
		n.Elem().Set(s)
	} else {
		n.Elem().Set(v)
	}
	return n
}

// CheckAlias runs the enumeration for one type; returns statistics for the evidence.
func CheckAlias(r *Run, g string, s *AliasSpec) map[string]any {
	if len(s.Values) == 0 {
		return nil
	}
	pt := reflect.TypeOf(s.Values[0])
	et := pt.Elem()
	st := &aliasStats{}
	vals := s.Values
	if s.MaxValues > 0 && len(vals) > s.MaxValues {
		vals = vals[:s.MaxValues]
	}
	equal := func(a, b reflect.Value) bool {
		if s.Equal != nil {
			return s.Equal(a.Interface(), b.Interface())
		}
		if m := a.MethodByName("Equal"); m.IsValid() && m.Type().NumIn() == 1 && m.Type().NumOut() == 1 && m.Type().Out(0).Kind() == reflect.Bool {
			if m.Type().In(0) == pt {
				return m.Call([]reflect.Value{b})[0].Bool()
			}
			if m.Type().In(0) == et {
				return m.Call([]reflect.Value{b.Elem()})[0].Bool()
			}
		}
		return DeepDump(a.Elem().Interface()) == DeepDump(b.Elem().Interface())
	}
	for mi := 0; mi < pt.NumMethod(); mi++ {
		m := pt.Method(mi)
		name := m.Name
		if aliasSkipNames[name] || s.Skip[name] || (s.Only != nil && !s.Only[name]) {
			continue
		}
		mt := m.Type
		// positions: 0 = receiver; operands of type *T or (slice types) T are aliasable
		type param struct {
			alias bool
			t     reflect.Type
		}
		params := []param{{true, pt}}
		ok := true
		for i := 1; i < mt.NumIn(); i++ {
			t := mt.In(i)
			switch {
			case t == pt:
				params = append(params, param{true, t})
			case t == et && et.Kind() == reflect.Slice:
				params = append(params, param{true, t})
			case t == et, t == reflect.TypeOf((*big.Int)(nil)), t == reflect.TypeOf(big.Int{}), t.Kind() == reflect.Uint64, t.Kind() == reflect.Int, t.Kind() == reflect.Uint, t.Kind() == reflect.Int64, t.Kind() == reflect.Bool, t.Kind() == reflect.Uint8:
				params = append(params, param{false, t})
			default:
				if _, have := s.Others[t]; have {
					params = append(params, param{false, t})
				} else {
					ok = false
				}
			}
		}
		if mt.IsVariadic() {
			ok = false
		}
		nalias := 0
		for _, p := range params {
			if p.alias {
				nalias++
			}
		}
		other := func(t reflect.Type, variant int) reflect.Value {
			switch {
			case t == et:
				return cloneVal(vals[(variant+1)%len(vals)]).Elem()
			case t == reflect.TypeOf((*big.Int)(nil)):
				return reflect.ValueOf([]*big.Int{big.NewInt(5), big.NewInt(-3), new(big.Int).Lsh(big.NewInt(1), 70)}[variant%3])
			case t == reflect.TypeOf(big.Int{}):
				return reflect.ValueOf(*big.NewInt(7))
			case t.Kind() == reflect.Bool:
				return reflect.ValueOf(variant%2 == 0)
			case t.Kind() == reflect.Uint64 || t.Kind() == reflect.Int || t.Kind() == reflect.Uint || t.Kind() == reflect.Int64 || t.Kind() == reflect.Uint8:
				return reflect.ValueOf([]int{3, 0, 1}[variant%3]).Convert(t)
			}
			sv := s.Others[t]
			v := sv[variant%len(sv)]
			if t.Kind() == reflect.Ptr {
				return cloneVal(v)
			}
			return cloneVal(v).Elem()
		}
		if ok {
			interiorAlias(r, g, s, st, name, pt, et, vals, func(i int) (bool, reflect.Type) { return params[i].alias, params[i].t }, len(params), equal, other)
			secondaryAlias(r, g, s, st, name, pt, et, vals, func(i int) (bool, reflect.Type) { return params[i].alias, params[i].t }, len(params), equal)
		}
		if !ok || nalias < 2 {
			if !ok {
				st.Skipped = append(st.Skipped, name)
			}
			continue
		}
		st.Methods = append(st.Methods, name)
		var apos []int
		for i, p := range params {
			if p.alias {
				apos = append(apos, i)
			}
		}
		for _, part := range setPartitions(len(apos)) {
			nb := 0
			for _, b := range part {
				if b+1 > nb {
					nb = b + 1
				}
			}
			if nb == len(apos) {
				continue // all distinct: this is the reference
			}
			st.Patterns++
			// values per block
			idx := make([]int, nb)
			for {
				for variant := 0; variant < 2; variant++ {
					// aliased configuration
					blocks := make([]reflect.Value, nb)
					for b := range blocks {
						blocks[b] = cloneVal(vals[idx[b]])
					}
					mkArgs := func(aliased bool) (recv reflect.Value, args []reflect.Value, ops []reflect.Value) {
						ai := 0
						for i, p := range params {
							var v reflect.Value
							if p.alias {
								b := part[ai]
								ai++
								if aliased {
									v = blocks[b]
								} else {
									v = cloneVal(vals[idx[b]])
								}
								ops = append(ops, v)
								if i == 0 {
									recv = v
									continue
								}
								if p.t == et { // slice passed by value
									args = append(args, v.Elem())
								} else {
									args = append(args, v)
								}
							} else {
								args = append(args, other(p.t, variant))
							}
						}
						return
					}
					rA, aA, opsA := mkArgs(true)
					rR, aR, _ := mkArgs(false)
					var pnA, pnR string
					pnA = Guard(func() { rA.MethodByName(name).Call(aA) })
					pnR = Guard(func() { rR.MethodByName(name).Call(aR) })
					st.Calls += 2
					id := fmt.Sprintf("partition=%v,values=%v,variant=%d", part, idx, variant)
					pat := fmt.Sprint(part)
					if r.ObsMode() { // C09: the aliased and the distinct-object results under every CPU configuration
						r.ObserveStr(g, fmt.Sprintf("%s|%s|%v|%v|%s|%s", name, id, pnA != "", pnR != "", DeepDump(rA.Elem().Interface()), DeepDump(rR.Elem().Interface())))
					}
					switch {
					case pnA != "" && pnR != "":
						// both reject these operands (e.g. length mismatch): nothing to compare
					case pnA != "" || pnR != "":
						r.FailIn(g, s.Prefix+"/"+name+"/panic-only-when-"+map[bool]string{true: "aliased", false: "distinct"}[pnA != ""], id, fmt.Sprintf("%s.%s %s: %s%s", s.Prefix, name, id, pnA, pnR), nil)
					default:
						if !equal(rA, rR) {
							r.FailIn(g, s.Prefix+"/"+name+"/result-depends-on-aliasing/"+pat, id, fmt.Sprintf("%s.%s with aliasing pattern %v (position 0 = receiver) differs from the call on distinct objects; %s", s.Prefix, name, part, id), nil)
						}
						// operands in blocks that do not contain the receiver keep their values
						for k, o := range opsA {
							if part[k] == part[0] {
								continue
							}
							if DeepDump(o.Elem().Interface()) != DeepDump(reflect.ValueOf(vals[idx[part[k]]]).Elem().Interface()) {
								r.FailIn(g, s.Prefix+"/"+name+"/operand-modified/"+pat, id, fmt.Sprintf("%s.%s modifies operand %d (pattern %v)", s.Prefix, name, k, part), nil)
							}
						}
					}
					if nalias == len(params) {
						break // no other operand: the second variant would be identical
					}
				}
				k := 0
				for ; k < nb; k++ {
					idx[k]++
					if idx[k] < len(vals) {
						break
					}
					idx[k] = 0
				}
				if k == nb {
					break
				}
			}
		}
	}
	sort.Strings(st.Methods)
	sort.Strings(st.Skipped)
	r.Add(st.Calls)
	r.Tag(s.Prefix)
	r.Note("alias_coverage", s.Prefix, fmt.Sprintf("patterns=%d calls=%d methods=[%s] not_enumerated=[%s]", st.Patterns, st.Calls, strings.Join(st.Methods, " "), strings.Join(st.Skipped, " ")))
	sort.Strings(st.Interior)
	return map[string]any{"type": s.Prefix, "sensitive_to_operands_pointing_into_the_receiver(recorded,outside the statement)": strings.Join(dedupStrings(st.Interior), " "), "methods": strings.Join(st.Methods, " "), "not_enumerated": strings.Join(st.Skipped, " "), "alias_patterns": st.Patterns, "calls": st.Calls}
}

var bigIntMenu = []*big.Int{big.NewInt(5), big.NewInt(-3), new(big.Int).Lsh(big.NewInt(1), 70), new(big.Int).Neg(new(big.Int).Add(new(big.Int).Lsh(big.NewInt(1), 130), big.NewInt(9))), new(big.Int)}

// subValuesOf collects (at most 4) addressable, settable sub-values of type u inside v: exported struct fields, array
// entries, slice elements (first, middle, last).
func subValuesOf(v reflect.Value, u reflect.Type, depth int, out *[]reflect.Value) {
	if depth > 3 || len(*out) >= 4 {
		return
	}
	visit := func(f reflect.Value) {
		if !f.CanAddr() || !f.CanSet() {
			return
		}
		if f.Type() == u {
			if len(*out) < 4 {
				*out = append(*out, f)
			}
			return
		}
		subValuesOf(f, u, depth+1, out)
	}
	switch v.Kind() {
	case reflect.Struct:
		for i := 0; i < v.NumField(); i++ {
			visit(v.Field(i))
		}
	case reflect.Array, reflect.Slice:
		k := v.Type().Elem().Kind()
		if k != reflect.Struct && k != reflect.Array {
			return
		}
		n := v.Len()
		seen := map[int]bool{}
		for _, i := range []int{0, n / 2, n - 1} {
			if i >= 0 && i < n && !seen[i] {
				seen[i] = true
				visit(v.Index(i))
			}
		}
	}
}

// interiorAlias: a pointer operand of another type U may point INTO the receiver (a coordinate of a tower element, an
// entry of a vector): z.Op(x, &z.B0). The call must compute what it computes when that operand is a separate copy of
// the same value; the other receiver-typed operands are the receiver itself (first form) or a distinct object (second).
func interiorAlias(r *Run, g string, s *AliasSpec, st *aliasStats, name string, pt, et reflect.Type, vals []any,
	param func(i int) (bool, reflect.Type), np int, equal func(a, b reflect.Value) bool, other func(t reflect.Type, variant int) reflect.Value) {
	bigT := reflect.TypeOf((*big.Int)(nil))
	for pos := 1; pos < np; pos++ {
		al, t := param(pos)
		if al || t.Kind() != reflect.Ptr || t == bigT || t == pt {
			continue
		}
		u := t.Elem()
		if u.Kind() != reflect.Struct && u.Kind() != reflect.Array {
			continue
		}
		for vi := 0; vi < len(vals) && vi < 3; vi++ {
			var probe []reflect.Value
			subValuesOf(cloneVal(vals[vi]).Elem(), u, 0, &probe)
			for si := range probe {
				for form := 0; form < 2; form++ {
					build := func(aliased bool) (recv reflect.Value, args []reflect.Value) {
						recv = cloneVal(vals[vi])
						var subs []reflect.Value
						subValuesOf(recv.Elem(), u, 0, &subs)
						for j := 1; j < np; j++ {
							aj, tj := param(j)
							switch {
							case j == pos:
								if aliased {
									args = append(args, subs[si].Addr())
								} else {
									c := reflect.New(u)
									c.Elem().Set(subs[si])
									args = append(args, c)
								}
							case aj:
								v := recv
								if form == 1 {
									v = cloneVal(vals[(vi+1)%len(vals)])
								}
								if tj == et {
									args = append(args, v.Elem())
								} else {
									args = append(args, v)
								}
							default:
								args = append(args, other(tj, form))
							}
						}
						return
					}
					rA, aA := build(true)
					rR, aR := build(false)
					pnA := Guard(func() { rA.MethodByName(name).Call(aA) })
					pnR := Guard(func() { rR.MethodByName(name).Call(aR) })
					st.Calls += 2
					id := fmt.Sprintf("operand %d points at sub-value #%d of the receiver (value %d, other receiver-typed operands: %s)", pos, si, vi, map[int]string{0: "the receiver", 1: "distinct"}[form])
					// An operand that points INTO the receiver is not "the same object" in the sense of C19's statement, and on
					// the unchanged tree several methods (Polynomial.Scale / ScaleInPlace / AddConstantInPlace, E2 / E4
					// MulByElement of the small-field towers) re-read such an operand after their first store: this is recorded,
					// not reported. What IS required (C09) is that the outcome does not depend on the CPU-specific code path, so
					// the configuration product observes the aliased result.
					if r.ObsMode() {
						r.ObserveStr(g, fmt.Sprintf("interior|%s|%s|%v|%s", name, id, pnA != "", DeepDump(rA.Elem().Interface())))
					}
					if pnA == "" && pnR == "" && !equal(rA, rR) {
						st.Interior = append(st.Interior, name)
					}
				}
			}
		}
	}
}

// secondaryAlias: pointer operands of a type other than the receiver's that occur at two or more positions
// (e.g. the two *big.Int scalars of a joint scalar multiplication, two *G1Affine bases) are passed as ONE object
// (every pair of positions, and all positions) and the result is compared with the call on distinct objects
// holding the same value; the shared operand must keep its value.
func secondaryAlias(r *Run, g string, s *AliasSpec, st *aliasStats, name string, pt, et reflect.Type, vals []any,
	param func(i int) (bool, reflect.Type), np int, equal func(a, b reflect.Value) bool) {
	bigT := reflect.TypeOf((*big.Int)(nil))
	classes := map[reflect.Type][]int{}
	for i := 1; i < np; i++ {
		al, t := param(i)
		if al || t.Kind() != reflect.Ptr {
			continue
		}
		if _, have := s.Others[t]; have || t == bigT {
			classes[t] = append(classes[t], i)
		}
	}
	menu := func(t reflect.Type) int {
		if t == bigT {
			return len(bigIntMenu)
		}
		return len(s.Others[t])
	}
	mk := func(t reflect.Type, k int) reflect.Value {
		if t == bigT {
			return reflect.ValueOf(new(big.Int).Set(bigIntMenu[k%len(bigIntMenu)]))
		}
		return cloneVal(s.Others[t][k%len(s.Others[t])].(any))
	}
	fill := func(t reflect.Type, variant int) reflect.Value {
		switch {
		case t == pt:
			return cloneVal(vals[(variant+1)%len(vals)])
		case t == et && et.Kind() == reflect.Slice:
			return cloneVal(vals[(variant+1)%len(vals)]).Elem()
		case t == et:
			return cloneVal(vals[(variant+1)%len(vals)]).Elem()
		case t == bigT:
			return mk(t, variant+1)
		case t == reflect.TypeOf(big.Int{}):
			return reflect.ValueOf(*big.NewInt(7))
		case t.Kind() == reflect.Bool:
			return reflect.ValueOf(variant%2 == 0)
		case t.Kind() == reflect.Uint64 || t.Kind() == reflect.Int || t.Kind() == reflect.Uint || t.Kind() == reflect.Int64 || t.Kind() == reflect.Uint8:
			return reflect.ValueOf([]int{3, 0, 1}[variant%3]).Convert(t)
		}
		sv := s.Others[t]
		v := sv[variant%len(sv)]
		if t.Kind() == reflect.Ptr {
			return cloneVal(v)
		}
		return cloneVal(v).Elem()
	}
	var types []reflect.Type
	for t := range classes {
		if len(classes[t]) >= 2 {
			types = append(types, t)
		}
	}
	sort.Slice(types, func(i, j int) bool { return types[i].String() < types[j].String() })
	for _, t := range types {
		pos := classes[t]
		var subsets [][]int
		for a := 0; a < len(pos); a++ {
			for b := a + 1; b < len(pos); b++ {
				subsets = append(subsets, []int{pos[a], pos[b]})
			}
		}
		if len(pos) > 2 {
			subsets = append(subsets, pos)
		}
		for _, sub := range subsets {
			in := map[int]bool{}
			for _, i := range sub {
				in[i] = true
			}
			st.Patterns++
			for k := 0; k < menu(t); k++ {
				for variant := 0; variant < 2; variant++ {
					build := func(shared bool) (reflect.Value, []reflect.Value, reflect.Value) {
						recv := cloneVal(vals[variant%len(vals)])
						obj := mk(t, k)
						args := make([]reflect.Value, 0, np-1)
						for i := 1; i < np; i++ {
							_, ti := param(i)
							switch {
							case in[i] && shared:
								args = append(args, obj)
							case in[i]:
								args = append(args, mk(t, k))
							default:
								args = append(args, fill(ti, variant+i))
							}
						}
						return recv, args, obj
					}
					rA, aA, obj := build(true)
					rR, aR, _ := build(false)
					before := DeepDump(obj.Elem().Interface())
					pnA := Guard(func() { rA.MethodByName(name).Call(aA) })
					pnR := Guard(func() { rR.MethodByName(name).Call(aR) })
					st.Calls += 2
					id := fmt.Sprintf("operands %v are one %s object,value#%d,variant=%d", sub, t, k, variant)
					pat := fmt.Sprintf("shared-%s", strings.TrimPrefix(t.String(), "*"))
					switch {
					case pnA != "" && pnR != "":
					case pnA != "" || pnR != "":
						r.FailIn(g, s.Prefix+"/"+name+"/panic-only-when-"+map[bool]string{true: "aliased", false: "distinct"}[pnA != ""], id, fmt.Sprintf("%s.%s %s: %s%s", s.Prefix, name, id, pnA, pnR), nil)
					default:
						if !equal(rA, rR) {
							r.FailIn(g, s.Prefix+"/"+name+"/result-depends-on-aliasing/"+pat, id, fmt.Sprintf("%s.%s gives another result when %s", s.Prefix, name, id), nil)
						}
						if DeepDump(obj.Elem().Interface()) != before {
							r.FailIn(g, s.Prefix+"/"+name+"/operand-modified/"+pat, id, fmt.Sprintf("%s.%s modifies the shared operand (%s)", s.Prefix, name, id), nil)
						}
					}
				}
			}
		}
		found := false
		for _, m := range st.Methods {
			if m == name+"(shared operands)" {
				found = true
			}
		}
		if !found {
			st.Methods = append(st.Methods, name+"(shared operands)")
		}
	}
}

// SquareSamples returns pointers to squares and fourth powers of the given samples (and 0, 1), computed with the
// type's own Square method - operands for which Sqrt is defined.
func SquareSamples(samples []any) []any {
	var out []any
	for _, p := range samples {
		v := reflect.ValueOf(p)
		if !v.MethodByName("Square").IsValid() {
			return nil
		}
		sq := reflect.New(v.Type().Elem())
		sq.MethodByName("Square").Call([]reflect.Value{v})
		q4 := reflect.New(v.Type().Elem())
		q4.MethodByName("Square").Call([]reflect.Value{sq})
		out = append(out, sq.Interface(), q4.Interface())
	}
	// squares of the elements with a single non-zero coordinate (b e_k for b = 1, 3): in a quadratic extension these are
	// the base-field elements b^2 and beta b^2 - the inputs on which a square-root routine takes its special branches
	// (operand in the base field, residue or non-residue there)
	if len(samples) > 0 {
		t := reflect.TypeOf(samples[0]).Elem()
		dim := len(Flatten(samples[0]))
		for k := 0; k < dim && k < 4; k++ {
			for _, b := range []int64{1, 3} {
				c := make([]*big.Int, dim)
				for i := range c {
					c[i] = new(big.Int)
				}
				c[k] = big.NewInt(b)
				v := reflect.New(t)
				Unflatten(v.Interface(), c)
				sq := reflect.New(t)
				sq.MethodByName("Square").Call([]reflect.Value{v})
				out = append(out, sq.Interface())
			}
		}
	}
	return out
}

func dedupStrings(l []string) []string {
	var out []string
	for i, x := range l {
		if i == 0 || x != l[i-1] {
			out = append(out, x)
		}
	}
	return out
}
