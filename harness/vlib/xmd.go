package vlib

import (
	"crypto/sha256"
	"errors"
	"math/big"
)

// XMD is expand_message_xmd of RFC 9380 section 5.3.1 with SHA-256, transcribed from the
// RFC's pseudo-code (independent of the library's implementation).
func XMD(msg, dst []byte, lenInBytes int) ([]byte, error) {
	const bInBytes, sInBytes = 32, 64
	ell := (lenInBytes + bInBytes - 1) / bInBytes
	if ell > 255 || lenInBytes > 65535 || len(dst) > 255 {
		return nil, errors.New("abort")
	}
	dstPrime := append(append([]byte{}, dst...), byte(len(dst)))
	zPad := make([]byte, sInBytes)
	libStr := []byte{byte(lenInBytes >> 8), byte(lenInBytes)}
	msgPrime := append(append(append(append(append([]byte{}, zPad...), msg...), libStr...), 0), dstPrime...)
	b0 := sha256.Sum256(msgPrime)
	b1 := sha256.Sum256(append(append(append([]byte{}, b0[:]...), 1), dstPrime...))
	uniform := append([]byte{}, b1[:]...)
	prev := b1
	for i := 2; i <= ell; i++ {
		var x [32]byte
		for j := range x {
			x[j] = b0[j] ^ prev[j]
		}
		bi := sha256.Sum256(append(append(append([]byte{}, x[:]...), byte(i)), dstPrime...))
		uniform = append(uniform, bi[:]...)
		prev = bi
	}
	return uniform[:lenInBytes], nil
}

// HashToFieldModel: count elements of F_q, L = ceil((ceil(log2 q) + 128) / 8).
func HashToFieldModel(msg, dst []byte, count int, q *big.Int) ([]*big.Int, error) {
	L := (q.BitLen() + 128 + 7) / 8
	u, err := XMD(msg, dst, count*L)
	if err != nil {
		return nil, err
	}
	out := make([]*big.Int, count)
	for i := range out {
		out[i] = new(big.Int).SetBytes(u[i*L : (i+1)*L])
		out[i].Mod(out[i], q)
	}
	return out, nil
}
