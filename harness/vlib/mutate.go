package vlib

import (
	"fmt"
	"reflect"
	"strings"
	"sync"
	"unsafe"
)

// Mutation is one single-component substitution inside a proof object: Apply changes exactly one
// leaf (field element, group element, digest byte, flag) or swaps two sibling items, Revert undoes it.
type Mutation struct {
	Path   string // e.g. "Proof.BatchedProof.ClaimedValues[2]"
	Kind   string // zero | plus-one | infinity | negated | doubled | from-other-proof | bit-flip | swap | flipped | incremented
	Apply  func()
	Revert func()
}

// Mutations enumerates the substitutions of every leaf reachable from root (a pointer). donor (same type, may
// be nil) supplies the "value from another honest proof" substitutions. maxPerSlice bounds the elements visited
// per slice (first two, middle, last two are kept when longer).
// MutOpt: optional substitution families. Torsion maps a point type to a pointer to a non-zero point of that type whose
// order divides the cofactor: "P + T" leaves every pairing equation intact, so only a verifier that tests subgroup
// membership rejects it (used for the verifiers that are documented to make that test).
type MutOpt struct {
	Torsion map[reflect.Type]any
	// TorsionPathContains restricts that family to the leaves whose path contains the string (the components the
	// verifier is documented to subgroup-check)
	TorsionPathContains string
}

var curMutOpt *MutOpt // set for the duration of one Mutations call (guarded by mutMu)
var mutMu sync.Mutex

func Mutations(root any, donor any, maxPerSlice int, opts ...MutOpt) []Mutation {
	mutMu.Lock()
	defer mutMu.Unlock()
	curMutOpt = nil
	if len(opts) > 0 {
		curMutOpt = &opts[0]
	}
	var out []Mutation
	rv := reflect.ValueOf(root)
	if rv.Kind() != reflect.Ptr {
		panic("Mutations: need a pointer")
	}
	var dv reflect.Value
	if donor != nil {
		dv = reflect.ValueOf(donor).Elem()
	}
	walkMut(rv.Elem(), dv, reflect.TypeOf(root).Elem().Name(), maxPerSlice, &out)
	return out
}

func settable(v reflect.Value) reflect.Value {
	if v.CanSet() {
		return v
	}
	if v.CanAddr() {
		return reflect.NewAt(v.Type(), unsafe.Pointer(v.UnsafeAddr())).Elem()
	}
	return v
}

func hasMethods(t reflect.Type, names ...string) bool {
	pt := reflect.PtrTo(t)
	for _, n := range names {
		if _, ok := pt.MethodByName(n); !ok {
			return false
		}
	}
	return true
}

func isFieldElt(t reflect.Type) bool {
	return t.Kind() == reflect.Array && (t.Elem().Kind() == reflect.Uint64 || t.Elem().Kind() == reflect.Uint32) && hasMethods(t, "SetOne", "Add", "IsZero")
}

func isPoint(t reflect.Type) bool {
	return t.Kind() == reflect.Struct && hasMethods(t, "IsInfinity", "Add", "Neg") && t.NumField() == 2
}

// shape: lengths of all nested slices (two items are swapped only when they have the same shape, so that
// the object stays well-formed)
func shapeOf(v reflect.Value) string {
	switch v.Kind() {
	case reflect.Slice:
		s := fmt.Sprintf("[%d", v.Len())
		for i := 0; i < v.Len(); i++ {
			s += shapeOf(v.Index(i))
		}
		return s + "]"
	case reflect.Struct:
		s := "{"
		for i := 0; i < v.NumField(); i++ {
			s += shapeOf(v.Field(i))
		}
		return s + "}"
	case reflect.Ptr:
		if v.IsNil() {
			return "nil"
		}
		return shapeOf(v.Elem())
	}
	return ""
}

func walkMut(v, donor reflect.Value, path string, maxPer int, out *[]Mutation) {
	v = settable(v)
	if donor.IsValid() {
		donor = settable(donor)
	}
	t := v.Type()
	saveRestore := func(kind string, apply func()) {
		if !v.CanSet() {
			return
		}
		old := reflect.New(t).Elem()
		old.Set(v)
		vv := v
		*out = append(*out, Mutation{Path: path, Kind: kind, Apply: apply, Revert: func() { vv.Set(old) }})
	}
	donorMut := func() {
		if donor.IsValid() && donor.Type() == t && DeepDump(donor.Interface()) != DeepDump(v.Interface()) {
			d := reflect.New(t).Elem()
			d.Set(donor)
			saveRestore("from-other-proof", func() { v.Set(d) })
		}
	}
	switch {
	case isFieldElt(t):
		p := v.Addr()
		if !p.MethodByName("IsZero").Call(nil)[0].Bool() {
			saveRestore("zero", func() { v.Set(reflect.Zero(t)) })
		}
		saveRestore("plus-one", func() {
			one := reflect.New(t)
			one.MethodByName("SetOne").Call(nil)
			p.MethodByName("Add").Call([]reflect.Value{p, one})
		})
		donorMut()
		return
	case isPoint(t):
		p := v.Addr()
		if !p.MethodByName("IsInfinity").Call(nil)[0].Bool() {
			saveRestore("infinity", func() { v.Set(reflect.Zero(t)) })
			saveRestore("negated", func() { p.MethodByName("Neg").Call([]reflect.Value{p}) })
			saveRestore("doubled", func() {
				c := reflect.New(t)
				c.Elem().Set(v)
				p.MethodByName("Add").Call([]reflect.Value{p, c})
			})
		}
		if curMutOpt != nil && curMutOpt.Torsion[t] != nil && strings.Contains(path, curMutOpt.TorsionPathContains) {
			tor := reflect.ValueOf(curMutOpt.Torsion[t])
			saveRestore("plus-cofactor-torsion", func() { p.MethodByName("Add").Call([]reflect.Value{p, tor}) })
		}
		donorMut()
		return
	}
	switch t.Kind() {
	case reflect.Struct:
		for i := 0; i < t.NumField(); i++ {
			var d reflect.Value
			if donor.IsValid() && donor.Type() == t {
				d = donor.Field(i)
			}
			walkMut(v.Field(i), d, path+"."+t.Field(i).Name, maxPer, out)
		}
	case reflect.Ptr:
		if !v.IsNil() {
			var d reflect.Value
			if donor.IsValid() && donor.Kind() == reflect.Ptr && !donor.IsNil() {
				d = donor.Elem()
			}
			walkMut(v.Elem(), d, path, maxPer, out)
		}
	case reflect.Slice, reflect.Array:
		n := v.Len()
		if t.Elem().Kind() == reflect.Uint8 {
			// a digest / byte string: flip one bit in the first, middle and last byte
			for _, i := range pickIdx(n, 3) {
				i := i
				el := settable(v.Index(i))
				if !el.CanSet() {
					continue
				}
				*out = append(*out, Mutation{Path: fmt.Sprintf("%s[byte %d]", path, i), Kind: "bit-flip",
					Apply:  func() { el.SetUint(el.Uint() ^ 1) },
					Revert: func() { el.SetUint(el.Uint() ^ 1) }})
			}
			return
		}
		for _, i := range pickIdx(n, maxPer) {
			var d reflect.Value
			if donor.IsValid() && donor.Type() == t && i < donor.Len() {
				d = donor.Index(i)
			}
			walkMut(v.Index(i), d, fmt.Sprintf("%s[%d]", path, i), maxPer, out)
		}
		// shape: one item fewer
		if t.Kind() == reflect.Slice && n >= 1 && v.CanSet() {
			oldHdr := reflect.New(t).Elem()
			oldHdr.Set(v)
			vv := v
			*out = append(*out, Mutation{Path: path, Kind: "shape-shortened", Apply: func() { vv.Set(oldHdr.Slice(0, n-1)) }, Revert: func() { vv.Set(oldHdr) }})
			// (an item more is not enumerated: verifiers may ignore trailing items, which does not change the statement)
		}
		// swap the first two items when they differ
		if n >= 2 && shapeOf(v.Index(0)) == shapeOf(v.Index(1)) && DeepDump(settable(v.Index(0)).Interface()) != DeepDump(settable(v.Index(1)).Interface()) {
			a, b := settable(v.Index(0)), settable(v.Index(1))
			if a.CanSet() && b.CanSet() {
				swap := func() {
					tmp := reflect.New(a.Type()).Elem()
					tmp.Set(a)
					a.Set(b)
					b.Set(tmp)
				}
				*out = append(*out, Mutation{Path: path + "[0<->1]", Kind: "swap", Apply: swap, Revert: swap})
			}
		}
	case reflect.Bool:
		saveRestore("flipped", func() { v.SetBool(!v.Bool()) })
	case reflect.Int, reflect.Int64, reflect.Int32:
		saveRestore("incremented", func() { v.SetInt(v.Int() + 1) })
	case reflect.Uint, reflect.Uint64, reflect.Uint32:
		saveRestore("incremented", func() { v.SetUint(v.Uint() + 1) })
	}
}

func pickIdx(n, max int) []int {
	if max <= 0 || n <= max {
		idx := make([]int, n)
		for i := range idx {
			idx[i] = i
		}
		return idx
	}
	seen := map[int]bool{}
	var idx []int
	for _, i := range []int{0, 1, n / 2, n - 2, n - 1} {
		if i >= 0 && i < n && !seen[i] && len(idx) < max {
			seen[i] = true
			idx = append(idx, i)
		}
	}
	return idx
}

// RejectAll applies every mutation in turn and requires verify() to fail; returns the number of verifications.
// A mutation after which the object is deep-equal to the original is skipped.
//
// Auxiliary leaves (named in AuxiliaryLeaves) are substituted as well, but only a panic is a violation for them:
// they are hints that are not part of the statement (see DESIGN.md).
var AuxiliaryLeaves = map[string]string{
	"Proof.size":                    "permutation / lookup proofs: the domain size hint; size+1 is not an admissible (power-of-two) statement size",
	"ProofLookupVector.size":        "same",
	"OpeningProof.index":            "fri opening: redundant copy of the position argument, which is what the verifier uses",
	"VerifierInput.SelectedColumns": "vortex: how many columns are opened is the verifier's own choice (its sampled positions), not part of the proof",
}

func isAux(path string) bool {
	for k := range AuxiliaryLeaves {
		if len(path) >= len(k) && path[len(path)-len(k):] == k {
			return true
		}
	}
	return false
}

func RejectAll(r *Run, g, keyPrefix, id string, root any, donor any, maxPer int, verify func() error, opts ...MutOpt) int {
	n := 0
	orig := DeepDump(reflect.ValueOf(root).Elem().Interface())
	for _, m := range Mutations(root, donor, maxPer, opts...) {
		m.Apply()
		if DeepDump(reflect.ValueOf(root).Elem().Interface()) == orig {
			m.Revert()
			continue
		}
		var err error
		pn := Guard(func() { err = verify() })
		n++
		m.Revert()
		cid := id + ": " + m.Path + " " + m.Kind
		if pn != "" {
			// a proof object whose lists have inconsistent lengths is not a well-formed proof: only its acceptance counts
			if !strings.HasPrefix(m.Kind, "shape-") {
				r.FailIn(g, keyPrefix+"/panic-on-forged-proof", cid, "verifier panics on "+cid+": "+pn, nil)
			}
		} else if err == nil && !isAux(stripIdx(m.Path)) {
			r.FailIn(g, keyPrefix+"/accepts-forged-proof/"+stripIdx(m.Path)+"/"+m.Kind, cid, "the verifier accepts the proof after the substitution "+cid, nil)
		}
	}
	if DeepDump(reflect.ValueOf(root).Elem().Interface()) != orig {
		r.Harness("mutation engine did not restore the proof object (" + id + ")")
	}
	return n
}

func stripIdx(p string) string {
	out := make([]byte, 0, len(p))
	depth := 0
	for i := 0; i < len(p); i++ {
		switch p[i] {
		case '[':
			depth++
			out = append(out, '[', ']')
		case ']':
			depth--
		default:
			if depth == 0 {
				out = append(out, p[i])
			}
		}
	}
	return string(out)
}

// SetField sets the (possibly unexported) field name of the struct root points to.
func SetField(root any, name string, val any) {
	f := settable(reflect.ValueOf(root).Elem().FieldByName(name))
	f.Set(reflect.ValueOf(val))
}
