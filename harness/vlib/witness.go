package vlib

import (
	"fmt"
	"math/big"
)

// Degenerate cyclotomic witnesses: members x != 1 of the cyclotomic subgroup of the top tower level whose
// slot-th coordinate over K (K = the field of the 6 slots of the top level: F_p2 for the E12 towers, F_p4 for
// E24, F_p for the bw6 E6) is zero. Random members never have a zero coordinate, so these are synthesised:
// on the line a(t) = a0 + t a1 (t in K) the easy part of the final exponentiation
//     x(t) = b^(q)·b,  b = conj(a)/a,  q = |K|
// has coordinates Num_c(t)/n(t)^2 with n(t) = N_{F/K}(a(t)) and Num_c in K[t] of degree <= 12 (the Frobenius
// powers involved fix K, hence act K-linearly on the line). Num_c is interpolated from 15 evaluations and a root
// in K is found with gcd(Num_c, X^q - X) and equal-degree splitting. Every witness is validated by the caller.

type kpoly [][]*big.Int // coefficients in K, lowest first

type kctx struct {
	T  *Tower
	kl int // level of K
}

func (k *kctx) zero() []*big.Int { return k.T.Zero(k.kl) }
func (k *kctx) one() []*big.Int  { return k.T.One(k.kl) }
func (k *kctx) mul(a, b []*big.Int) []*big.Int {
	if k.kl == 0 {
		z := new(big.Int).Mul(a[0], b[0])
		return []*big.Int{z.Mod(z, k.T.P)}
	}
	return k.T.Mul(a, b)
}

func (k *kctx) trim(p kpoly) kpoly {
	for len(p) > 0 && k.T.IsZero(p[len(p)-1]) {
		p = p[:len(p)-1]
	}
	return p
}

func (k *kctx) pmul(a, b kpoly) kpoly {
	if len(a) == 0 || len(b) == 0 {
		return nil
	}
	out := make(kpoly, len(a)+len(b)-1)
	for i := range out {
		out[i] = k.zero()
	}
	for i := range a {
		for j := range b {
			out[i+j] = k.T.Add(out[i+j], k.mul(a[i], b[j]))
		}
	}
	return k.trim(out)
}

func (k *kctx) psub(a, b kpoly) kpoly {
	n := len(a)
	if len(b) > n {
		n = len(b)
	}
	out := make(kpoly, n)
	for i := range out {
		out[i] = k.zero()
		if i < len(a) {
			out[i] = k.T.Add(out[i], a[i])
		}
		if i < len(b) {
			out[i] = k.T.Sub(out[i], b[i])
		}
	}
	return k.trim(out)
}

// a mod m (m != 0)
func (k *kctx) pmod(a, m kpoly) kpoly {
	a = k.trim(append(kpoly{}, a...))
	dm := len(m) - 1
	inv := k.T.Inv(m[dm])
	for len(a)-1 >= dm && len(a) > 0 {
		da := len(a) - 1
		c := k.mul(a[da], inv)
		for i := 0; i <= dm; i++ {
			a[da-dm+i] = k.T.Sub(a[da-dm+i], k.mul(c, m[i]))
		}
		a = k.trim(a)
	}
	return a
}

func (k *kctx) pgcd(a, b kpoly) kpoly {
	a, b = k.trim(a), k.trim(b)
	for len(b) > 0 {
		a, b = b, k.pmod(a, b)
	}
	if len(a) > 0 { // monic
		inv := k.T.Inv(a[len(a)-1])
		for i := range a {
			a[i] = k.mul(a[i], inv)
		}
	}
	return a
}

func (k *kctx) ppowmod(base kpoly, e *big.Int, m kpoly) kpoly {
	res := kpoly{k.one()}
	b := k.pmod(base, m)
	for i := e.BitLen() - 1; i >= 0; i-- {
		res = k.pmod(k.pmul(res, res), m)
		if e.Bit(i) == 1 {
			res = k.pmod(k.pmul(res, b), m)
		}
	}
	return res
}

func (k *kctx) peval(p kpoly, x []*big.Int) []*big.Int {
	acc := k.zero()
	for i := len(p) - 1; i >= 0; i-- {
		acc = k.T.Add(k.mul(acc, x), p[i])
	}
	return acc
}

// Lagrange interpolation through (xs[i], ys[i])
func (k *kctx) interpolate(xs, ys [][]*big.Int) kpoly {
	var res kpoly
	for i := range xs {
		num := kpoly{k.one()}
		den := k.one()
		for j := range xs {
			if j == i {
				continue
			}
			num = k.pmul(num, kpoly{k.T.Neg(xs[j]), k.one()})
			den = k.mul(den, k.T.Sub(xs[i], xs[j]))
		}
		c := k.mul(ys[i], k.T.Inv(den))
		term := make(kpoly, len(num))
		for q := range num {
			term[q] = k.mul(num[q], c)
		}
		if res == nil {
			res = term
		} else {
			res = k.psub(res, k.psub(nil, term)) // res + term
		}
	}
	return k.trim(res)
}

// a root of p in K (nil if none); rnd supplies pseudo-random elements of K
func (k *kctx) root(p kpoly, q *big.Int, rnd func(i int) []*big.Int) []*big.Int {
	p = k.trim(p)
	if len(p) < 2 {
		return nil
	}
	x := kpoly{k.zero(), k.one()}
	h := k.ppowmod(x, q, p)
	g := k.pgcd(p, k.psub(h, x))
	if len(g) < 2 {
		return nil
	}
	half := new(big.Int).Rsh(new(big.Int).Sub(q, big.NewInt(1)), 1)
	for it := 0; len(g) > 2 && it < 60; it++ {
		d := kpoly{rnd(it), k.one()}
		w := k.psub(k.ppowmod(d, half, g), kpoly{k.one()})
		s := k.pgcd(g, w)
		if len(s) >= 2 && len(s) < len(g) {
			if len(s)-1 <= (len(g)-1)/2 {
				g = s
			} else {
				// keep the smaller factor g/s when cheaper: just continue with s (still has a root)
				g = s
			}
		}
	}
	if len(g) != 2 {
		return nil
	}
	return k.T.Neg(k.mul(g[0], k.T.Inv(g[1])))
}

// DegenerateCyclotomic returns a member of the cyclotomic subgroup of the top level whose slot-th K-coordinate
// (0..5) is zero, or nil. frob(a, e) must compute a^(p^e). rnd(tag, i) supplies reproducible field elements.
func DegenerateCyclotomic(T *Tower, slot int, frob func(a []*big.Int, e int) []*big.Int, rnd func(tag string, i int) *big.Int) ([]*big.Int, string) {
	top := T.Top()
	D := T.Dim(top)
	kd := D / 6
	kl := -1
	for l := 0; l <= top; l++ {
		if T.Dim(l) == kd {
			kl = l
		}
	}
	if kl < 0 || D%6 != 0 {
		return nil, "no slot field"
	}
	k := &kctx{T, kl}
	q := new(big.Int).Exp(T.P, big.NewInt(int64(kd)), nil)
	conj := func(a []*big.Int) []*big.Int { return frob(a, 3*kd) }
	easy := func(a []*big.Int) []*big.Int {
		b := T.Mul(conj(a), T.Inv(a))
		return T.Mul(frob(b, kd), b)
	}
	normK := func(a []*big.Int) []*big.Int { // product of the 6 conjugates over K
		n := T.Copy(a)
		for i := 1; i < 6; i++ {
			n = T.Mul(n, frob(a, i*kd))
		}
		return n
	}
	embedK := func(t []*big.Int) []*big.Int { return T.Embed(t, top) }
	for attempt := 0; attempt < 8; attempt++ {
		a0, a1 := T.Zero(top), T.Zero(top)
		for i := range a0 {
			a0[i] = rnd(fmt.Sprintf("w%d-%d-a0", slot, attempt), i)
			a1[i] = rnd(fmt.Sprintf("w%d-%d-a1", slot, attempt), i)
		}
		at := func(t []*big.Int) []*big.Int { return T.Add(a0, T.Mul(embedK(t), a1)) }
		var xs, ys [][]*big.Int
		ok := true
		for j := 0; j < 15 && ok; j++ {
			t := k.zero()
			t[0].SetInt64(int64(j + 1))
			a := at(t)
			n := normK(a)
			if !T.IsZero(n[kd:]) {
				return nil, "norm not in K (tower / Frobenius mismatch)"
			}
			nk := n[:kd]
			x := easy(a)
			c := x[slot*kd : (slot+1)*kd]
			xs = append(xs, t)
			ys = append(ys, k.mul(k.mul(nk, nk), c))
		}
		P := k.interpolate(xs, ys)
		if len(P) > 13 {
			return nil, fmt.Sprintf("numerator has degree %d > 12 (analysis wrong)", len(P)-1)
		}
		// consistency of the interpolation: the 14th and 15th points are redundant, so P is a genuine degree <= 12 fit
		t := k.root(P, q, func(i int) []*big.Int {
			e := k.zero()
			for j := range e {
				e[j] = rnd(fmt.Sprintf("w%d-%d-split%d", slot, attempt, i), j)
			}
			return e
		})
		if t == nil {
			continue
		}
		a := at(t)
		if T.IsZero(a) {
			continue
		}
		x := easy(a)
		if !T.IsZero(x[slot*kd:(slot+1)*kd]) || T.Equal(x, T.One(top)) {
			continue
		}
		return x, ""
	}
	return nil, "no root found in 8 attempts"
}
