package vlib

import (
	"crypto/sha256"
	"encoding/json"
	"fmt"
	"math/big"
	"os"
	"path/filepath"
	"reflect"
	"regexp"
	"sort"
	"strings"
	"time"
)

// TowerSpec describes the extension-field types of one package for CheckTower: every exported
// method / package function whose meaning is fixed by its name and documentation is discovered
// by reflection and compared with the generic quotient-ring model on an exhaustive menu of
// structured operands (zero / one / sparse / sub-field / maximal-coordinate / generic).
type TowerSpec struct {
	Name      string
	T         *Tower
	Types     map[string]any      // type name -> pointer to a zero value
	Funcs     map[string]any      // exported package-level functions
	R         *big.Int            // order of GT (nil when the package has no target group)
	GT        string              // name of the target-group type ("" if none)
	XGen      *big.Int            // signed seed t of the curve: Expt(x) = x^t (nil: the Expt family is unmodelled)
	NamedExps map[string]*big.Int // further fixed-exponent methods documented as x^c (name -> c)
	TwistB    []*big.Int          // twist coefficient (MulBybTwistCurveCoeff), nil if none
	GTElts    [][]*big.Int        // some elements of GT (pairing outputs), model coordinates
	Quick     bool
	Seed      int64
}

type towerType struct {
	name  string
	rt    reflect.Type // struct type
	level int
	dim   int
}

type towerChk struct {
	r       *Run
	g       string
	s       *TowerSpec
	T       *Tower
	types   map[string]*towerType
	byRT    map[reflect.Type]*towerType
	n       int
	unmod   map[string]bool
	frob    map[string][][]*big.Int
	ctr     int
	cyCache map[int][]namedElt
	msecs   map[string]float64
	mcur    string
	mt0     time.Time
}

// per-method wall time (reported in the evidence sample when above 2 s)
func (c *towerChk) mstart(name string) {
	if c.mcur != "" {
		c.msecs[c.mcur] += time.Since(c.mt0).Seconds()
	}
	c.mcur, c.mt0 = name, time.Now()
}

func (c *towerChk) key(tn, op, cls string) string {
	return "ext/" + c.s.Name + "/" + tn + "/" + op + "/" + cls
}

// pseudo-random but reproducible coordinates
func (c *towerChk) rnd(tag string, i int) *big.Int {
	h := sha256.Sum256([]byte(fmt.Sprintf("%s/%s/%d/%d", c.s.Name, tag, i, c.s.Seed)))
	h2 := sha256.Sum256(h[:])
	v := new(big.Int).SetBytes(append(append(h[:], h2[:]...), h[:]...))
	return v.Mod(v, c.T.P)
}

func (c *towerChk) rndElt(level int, tag string) []*big.Int {
	z := c.T.Zero(level)
	for i := range z {
		z[i] = c.rnd(tag, i)
	}
	return z
}

type namedElt struct {
	name string
	v    []*big.Int
}

// menu of operands of a level: structured special values first, generic last
func (c *towerChk) menu(level int) []namedElt {
	T := c.T
	d := T.Dim(level)
	pm1 := new(big.Int).Sub(T.P, big.NewInt(1))
	var m []namedElt
	add := func(n string, v []*big.Int) { m = append(m, namedElt{n, v}) }
	add("0", T.Zero(level))
	add("1", T.One(level))
	add("-1", T.Neg(T.One(level)))
	add("2", T.FromInt(level, 2))
	if level > 0 {
		b := T.Zero(level)
		b[0] = c.rnd("base", 0)
		add("base-field", b)
		all := T.Zero(level)
		for i := range all {
			all[i].Set(pm1)
		}
		add("all-coordinates-p-1", all)
		// one non-zero slot at the granularity of the two top extension steps, and its complement
		slot := 1
		if level >= 2 {
			slot = T.Dim(level - 2)
		}
		ns := d / slot
		if ns > 1 && ns <= 12 {
			for k := 0; k < ns; k++ {
				e := T.Zero(level)
				for i := 0; i < slot; i++ {
					e[k*slot+i] = c.rnd(fmt.Sprintf("slot%d", k), i)
				}
				add(fmt.Sprintf("only-slot-%d", k), e)
			}
			for k := 0; k < ns; k++ {
				e := c.rndElt(level, fmt.Sprintf("noslot%d", k))
				for i := 0; i < slot; i++ {
					e[k*slot+i].SetInt64(0)
				}
				add(fmt.Sprintf("zero-slot-%d", k), e)
			}
		}
		// sub-field of index Deg[level]
		sub := T.Dim(level - 1)
		e := T.Zero(level)
		for i := 0; i < sub; i++ {
			e[i] = c.rnd("sub", i)
		}
		add("subfield", e)
		e = T.Zero(level)
		for i := sub; i < d; i++ {
			e[i] = c.rnd("upper", i)
		}
		add("zero-constant-coefficient", e)
	}
	add("generic-a", c.rndElt(level, "a"))
	add("generic-b", c.rndElt(level, "b"))
	add("generic-c", c.rndElt(level, "c"))
	return m
}

// Frobenius^k of a level via the images of the tower generators (Frobenius is a ring morphism).
func (c *towerChk) frobenius(a []*big.Int, k int) []*big.Int {
	T := c.T
	level := T.levelOf(len(a))
	ck := fmt.Sprintf("%d/%d", level, k)
	basis, ok := c.frob[ck]
	if !ok {
		pk := new(big.Int).Exp(T.P, big.NewInt(int64(k)), nil)
		// image of generator j (the X adjoined at level j), lifted to `level`
		gimg := make([][]*big.Int, level+1)
		for j := 1; j <= level; j++ {
			gj := T.Zero(j)
			gj[T.Dim(j-1)].SetInt64(1)
			gimg[j] = T.Embed(T.Exp(gj, pk), level)
		}
		d := T.Dim(level)
		basis = make([][]*big.Int, d)
		for i := 0; i < d; i++ {
			img := T.One(level)
			rem := i
			for j := 1; j <= level; j++ {
				e := rem % T.Deg[j]
				rem /= T.Deg[j]
				for q := 0; q < e; q++ {
					img = T.Mul(img, gimg[j])
				}
			}
			basis[i] = img
		}
		c.frob[ck] = basis
	}
	z := T.Zero(level)
	for i := range a {
		if a[i].Sign() == 0 {
			continue
		}
		for q := range z {
			t := new(big.Int).Mul(a[i], basis[i][q])
			z[q].Add(z[q], t).Mod(z[q], T.P)
		}
	}
	return z
}

func (c *towerChk) newVal(tt *towerType, v []*big.Int) reflect.Value {
	p := reflect.New(tt.rt)
	Unflatten(p.Interface(), v)
	return p
}

func (c *towerChk) garbage(tt *towerType) reflect.Value {
	c.ctr++
	return c.newVal(tt, c.rndElt(tt.level, fmt.Sprintf("garbage%d", c.ctr%7)))
}

func (c *towerChk) read(p reflect.Value) []*big.Int { return Flatten(p.Interface()) }

func (c *towerChk) fail(tn, op, cls, id, desc string) {
	c.r.FailIn(c.g, c.key(tn, op, cls), id, fmt.Sprintf("%s %s.%s %s: %s", c.s.Name, tn, op, id, desc), nil)
}

// typeOfPtr: tower type for a *T parameter (or a leaf prime-field element => level 0)
func (c *towerChk) typeOfPtr(t reflect.Type) *towerType {
	if t.Kind() != reflect.Ptr {
		return nil
	}
	return c.typeOfVal(t.Elem())
}

func (c *towerChk) typeOfVal(e reflect.Type) *towerType {
	if tt, ok := c.byRT[e]; ok {
		return tt
	}
	if e.Kind() == reflect.Array && (e.Elem().Kind() == reflect.Uint64 || e.Elem().Kind() == reflect.Uint32) {
		if _, ok := reflect.PtrTo(e).MethodByName("SetBigInt"); ok {
			tt := &towerType{name: "Fp", rt: e, level: 0, dim: 1}
			c.byRT[e] = tt
			return tt
		}
	}
	return nil
}

var digitsRe = regexp.MustCompile(`^MulBy([0-9]+)$`)
var digits2Re = regexp.MustCompile(`^Mul([0-9]+)By([0-9]+)$`)
var nrPowRe = regexp.MustCompile(`^MulByNonResidue([1-9])Power([1-9])$`)

// sparse element of `tt` from slot values, following the documented shapes: digits name the
// non-zero slots; "34" has an implicit 1 in slot 0; on 6-slot types "01" has an implicit 1 in slot 4.
func (c *towerChk) sparse(tt *towerType, digits string, slots [][]*big.Int) ([]*big.Int, bool) {
	T := c.T
	var nslots int
	if tt.level >= 2 && T.Deg[tt.level]*T.Deg[tt.level-1] == 6 {
		nslots = 6
	} else if T.Deg[tt.level] == 3 {
		nslots = 3
	} else {
		return nil, false
	}
	// a 6-slot type whose sparse arguments are of the level directly below has 2 or 3 "big" slots instead
	sd := tt.dim / nslots
	if len(slots) > 0 && len(slots[0]) != sd {
		if len(slots[0]) == tt.dim/T.Deg[tt.level] {
			nslots = T.Deg[tt.level]
			sd = len(slots[0])
		} else {
			return nil, false
		}
	}
	e := T.Zero(tt.level)
	if len(digits) != len(slots) {
		return nil, false
	}
	for i, ch := range digits {
		k := int(ch - '0')
		if k >= nslots {
			return nil, false
		}
		for q := 0; q < sd; q++ {
			e[k*sd+q] = new(big.Int).Set(slots[i][q])
		}
	}
	if digits == "34" && nslots == 6 {
		e[0].SetInt64(1)
	}
	if digits == "01" && nslots == 6 {
		e[4*sd].SetInt64(1)
	}
	return e, true
}

func (c *towerChk) slotMenu(level int, small bool) [][]*big.Int {
	T := c.T
	m := [][]*big.Int{T.Zero(level), T.One(level), c.rndElt(level, "sl-a"), c.rndElt(level, "sl-b")}
	if !small {
		all := T.Zero(level)
		for i := range all {
			all[i].Sub(T.P, big.NewInt(1))
		}
		m = append(m, all)
		if level > 0 {
			b := T.Zero(level)
			b[0] = c.rnd("sl-base", 0)
			m = append(m, b)
		}
	}
	return m
}

func product(menus [][][]*big.Int, f func(sel [][]*big.Int)) {
	idx := make([]int, len(menus))
	for {
		sel := make([][]*big.Int, len(menus))
		for i := range menus {
			sel[i] = menus[i][idx[i]]
		}
		f(sel)
		k := 0
		for ; k < len(menus); k++ {
			idx[k]++
			if idx[k] < len(menus[k]) {
				break
			}
			idx[k] = 0
		}
		if k == len(menus) {
			return
		}
	}
}

// cyclotomic subgroup members of the top level built in the model by the easy part of the final exponentiation
func (c *towerChk) cyclo(level int) []namedElt {
	if v, ok := c.cyCache[level]; ok {
		return v
	}
	v := c.cyclo0(level)
	if c.cyCache == nil {
		c.cyCache = map[int][]namedElt{}
	}
	c.cyCache[level] = v
	return v
}

// witnesses found by earlier runs are kept in /verif/data/witnesses (they depend on the documented tower only, not on
// the library) and are re-validated by the caller on every load
func (c *towerChk) witnessFile() string {
	return filepath.Join(Root, "data", "witnesses", c.s.Name+".json")
}

func (c *towerChk) cachedWitness(slot int) ([]*big.Int, string) {
	b, err := os.ReadFile(c.witnessFile())
	if err != nil {
		return nil, "no cache"
	}
	m := map[string][]string{}
	if json.Unmarshal(b, &m) != nil {
		return nil, "bad cache"
	}
	hs, ok := m[fmt.Sprint(slot)]
	if ok && len(hs) == 0 {
		return nil, "cached: no root on 8 lines"
	}
	if !ok || len(hs) != c.T.Dim(c.T.Top()) {
		return nil, "not cached"
	}
	w := make([]*big.Int, len(hs))
	for i, h := range hs {
		v, ok := new(big.Int).SetString(h, 16)
		if !ok || v.Sign() < 0 || v.Cmp(c.T.P) >= 0 {
			return nil, "bad cache entry"
		}
		w[i] = v
	}
	return w, ""
}

func (c *towerChk) storeWitness(slot int, w []*big.Int) {
	m := map[string][]string{}
	if b, err := os.ReadFile(c.witnessFile()); err == nil {
		json.Unmarshal(b, &m)
	}
	hs := make([]string, len(w))
	for i := range w {
		hs[i] = w[i].Text(16)
	}
	m[fmt.Sprint(slot)] = hs
	b, _ := json.MarshalIndent(m, "", " ")
	os.MkdirAll(filepath.Dir(c.witnessFile()), 0o755)
	os.WriteFile(c.witnessFile(), b, 0o644)
}

func (c *towerChk) cyclo0(level int) []namedElt {
	T := c.T
	d := T.Dim(level)
	var out []namedElt
	out = append(out, namedElt{"1", T.One(level)})
	easy := func(a []*big.Int) []*big.Int {
		// a^(p^(d/2)-1): conj(a)/a ; then ^(p^(d/6)+1) for d = 12, 24 ; ^(p+1) for d = 6
		cj := c.conj(a)
		t := T.Mul(cj, T.Inv(a))
		var k int
		switch d {
		case 12:
			k = 2
		case 24:
			k = 4
		case 6:
			k = 1
		default:
			return nil
		}
		return T.Mul(c.frobenius(t, k), t)
	}
	for _, tag := range []string{"cy-a", "cy-b", "cy-c"} {
		e := easy(c.rndElt(level, tag))
		if e == nil {
			return nil
		}
		out = append(out, namedElt{"cyclotomic-" + tag, e})
	}
	out = append(out, namedElt{"cyclotomic-inverse", T.Inv(out[1].v)})
	out = append(out, namedElt{"cyclotomic-product", T.Mul(out[1].v, out[2].v)})
	// from sparse pre-images (zero sub-coordinates before the easy part)
	sp := T.Zero(level)
	sp[0].SetInt64(3)
	sp[d/2] = c.rnd("cy-sp", 1)
	if e := easy(sp); e != nil {
		out = append(out, namedElt{"cyclotomic-from-sparse", e})
	}
	for i, gt := range c.s.GTElts {
		out = append(out, namedElt{fmt.Sprintf("GT-%d", i), gt})
	}
	// degenerate witnesses: cyclotomic members with one zero slot (the g3 = 0 / g2 = 0 / ... branches of the compressed
	// squaring), and their square roots in the (odd-order) cyclotomic subgroup so that the compressed square lands on them
	if level == T.Top() && d%6 == 0 {
		slots := []int{2, 3, 5}
		if !c.s.Quick {
			slots = []int{0, 1, 2, 3, 4, 5}
		}
		// N = Phi_d(p): p^4-p^2+1 (12), p^8-p^4+1 (24), p^2-p+1 (6)
		pk := new(big.Int).Exp(T.P, big.NewInt(int64(d/6)), nil)
		N := new(big.Int).Mul(pk, pk)
		N.Sub(N, pk).Add(N, big.NewInt(1))
		half := new(big.Int).Rsh(new(big.Int).Add(N, big.NewInt(1)), 1)
		found := 0
		for _, sl := range slots {
			w, why := c.cachedWitness(sl)
			if w == nil && why != "cached: no root on 8 lines" {
				w, why = DegenerateCyclotomic(T, sl, c.frobenius, c.rnd)
				if os.Getenv("VERIF_WRITE_WITNESSES") != "" {
					c.storeWitness(sl, w) // (nil is recorded as an empty entry: the search is not repeated on every run)
				}
			}
			if w == nil {
				c.unmod[fmt.Sprintf("degenerate cyclotomic witness for slot %d not found: %s", sl, why)] = true
				continue
			}
			kd := d / 6
			if !T.IsZero(w[sl*kd:(sl+1)*kd]) || !T.Equal(T.Exp(w, N), T.One(level)) || T.Equal(w, T.One(level)) {
				c.r.Harness("invalid degenerate witness synthesised for " + c.s.Name)
			}
			found++
			out = append(out, namedElt{fmt.Sprintf("cyclotomic-with-zero-slot-%d", sl), w})
			out = append(out, namedElt{fmt.Sprintf("square-root-of-cyclotomic-with-zero-slot-%d", sl), T.Exp(w, half)})
		}
		c.r.Note("degenerate_witnesses", c.s.Name, found)
	}
	return out
}

// fixedExp: exponent of the documented fixed-exponent routines (Expt family: functions of the signed seed t)
func (c *towerChk) fixedExp(name string) *big.Int {
	t := c.s.XGen
	one := big.NewInt(1)
	tm1 := new(big.Int).Sub(t, one)
	switch name {
	case "Expt":
		return t
	case "ExptHalf":
		if t.Bit(0) == 0 {
			return new(big.Int).Quo(t, big.NewInt(2))
		}
	case "ExptMinus1":
		return tm1
	case "ExptPlus1":
		return new(big.Int).Add(t, one)
	case "ExptMinus1Square", "ExptMinus1Squared":
		return new(big.Int).Mul(tm1, tm1)
	case "ExptSquarePlus1":
		return new(big.Int).Add(new(big.Int).Mul(t, t), one)
	case "ExptMinus1Div3":
		if new(big.Int).Mod(tm1, big.NewInt(3)).Sign() == 0 {
			return new(big.Int).Quo(tm1, big.NewInt(3))
		}
	}
	if e, ok := c.s.NamedExps[name]; ok {
		return e
	}
	return nil
}

func (c *towerChk) conj(a []*big.Int) []*big.Int {
	T := c.T
	z := T.Copy(a)
	h := len(a) / 2
	for i := h; i < len(a); i++ {
		z[i].Neg(z[i]).Mod(z[i], T.P)
	}
	return z
}

// CheckTower runs the whole comparison; returns the number of evaluations.
func CheckTower(r *Run, g string, s *TowerSpec) int {
	c := &towerChk{r: r, g: g, s: s, T: s.T, types: map[string]*towerType{}, byRT: map[reflect.Type]*towerType{}, unmod: map[string]bool{}, frob: map[string][][]*big.Int{}}
	var names []string
	for n, p := range s.Types {
		rt := reflect.TypeOf(p).Elem()
		dim := len(Flatten(p))
		tt := &towerType{name: n, rt: rt, dim: dim, level: -1}
		for l := 0; l <= s.T.Top(); l++ {
			if s.T.Dim(l) == dim {
				tt.level = l
			}
		}
		if tt.level < 0 {
			c.unmod[n+" (no model level of dimension "+fmt.Sprint(dim)+")"] = true
			continue
		}
		c.types[n] = tt
		c.byRT[rt] = tt
		names = append(names, n)
	}
	sort.Slice(names, func(i, j int) bool { return c.types[names[i]].dim < c.types[names[j]].dim })
	secs := map[string]float64{}
	for _, n := range names {
		if r.Expired(g) || r.RecheckDone() {
			break
		}
		t0 := time.Now()
		c.checkType(c.types[n])
		secs[n] = float64(int(time.Since(t0).Seconds()*10)) / 10
		r.Tag("ext/" + s.Name + "/" + n)
	}
	c.mstart("")
	for k, v := range c.msecs {
		if v > 2 {
			secs[k] = float64(int(v*10)) / 10
		}
	}
	t0 := time.Now()
	c.checkFuncs()
	secs["package functions"] = float64(int(time.Since(t0).Seconds()*10)) / 10
	var um []string
	for k := range c.unmod {
		um = append(um, k)
	}
	sort.Strings(um)
	r.Sample(map[string]any{"package": s.Name, "types": names, "evaluations": c.n, "methods_without_model_semantics": um, "seconds": secs})
	return c.n
}

var skipMethods = map[string]bool{"String": true, "SetString": true, "SetRandom": true, "MustSetRandom": true, "Cmp": true, "LexicographicallyLargest": true,
	"Bits": true, "Bytes": true, "SetBytes": true, "Marshal": true, "Unmarshal": true, "Clone": true, "SetZero": true, "SetOne": true}

func (c *towerChk) checkType(tt *towerType) {
	T := c.T
	pt := reflect.PtrTo(tt.rt)
	M := c.menu(tt.level)
	top := tt.level == T.Top()
	var CY []namedElt
	if top && tt.name == c.s.GT {
		CY = c.cyclo(tt.level)
	}
	isQuad := tt.level >= 1 && T.Deg[tt.level] == 2
	errT := reflect.TypeOf((*error)(nil)).Elem()
	bigT := reflect.TypeOf((*big.Int)(nil))
	ptrRet := func(mt reflect.Type) bool { return mt.NumOut() == 1 && mt.Out(0) == pt }
	eq := func(got reflect.Value, want []*big.Int) bool { return T.Equal(c.read(got), want) }

	for mi := 0; mi < pt.NumMethod(); mi++ {
		m := pt.Method(mi)
		name := m.Name
		mt := m.Type // receiver is In(0)
		nin := mt.NumIn() - 1
		if skipMethods[name] || c.r.Expired(c.g) {
			continue
		}
		tm0 := time.Now()
		defer func(nm string, t0 time.Time) {}(name, tm0)
		if c.msecs == nil {
			c.msecs = map[string]float64{}
		}
		c.mstart(tt.name + "." + name)
		call := func(z reflect.Value, args ...reflect.Value) (out []reflect.Value, pn string) {
			pn = Guard(func() { out = z.MethodByName(name).Call(args) })
			c.n++
			if c.r.ObsMode() { // engine K: everything computed is folded into the per-group digest
				if pn != "" {
					c.r.ObserveStr(c.g, "panic")
				} else if z.Kind() == reflect.Ptr && z.Type().Elem() == tt.rt {
					c.r.Observe(c.g, FlattenBytes(z.Interface()))
				}
			}
			return
		}
		un := func(model func(x []*big.Int) []*big.Int, dom []namedElt) {
			for _, x := range dom {
				want := model(x.v)
				if want == nil {
					continue
				}
				z := c.garbage(tt)
				xv := c.newVal(tt, x.v)
				out, pn := call(z, xv)
				if pn != "" {
					c.fail(tt.name, name, "panic", "x="+x.name, pn)
					continue
				}
				if !eq(z, want) {
					c.fail(tt.name, name, "wrong-value", "x="+x.name, "differs from the generic model")
				} else if len(out) == 1 && out[0].Pointer() != z.Pointer() {
					c.fail(tt.name, name, "wrong-return", "x="+x.name, "does not return the receiver")
				}
				if !eq(xv, x.v) {
					c.fail(tt.name, name, "operand-modified", "x="+x.name, "the operand was modified")
				}
			}
		}
		bin := func(model func(x, y []*big.Int) []*big.Int) {
			for _, x := range M {
				for _, y := range M {
					want := model(x.v, y.v)
					if want == nil {
						continue
					}
					z := c.garbage(tt)
					xv, yv := c.newVal(tt, x.v), c.newVal(tt, y.v)
					_, pn := call(z, xv, yv)
					id := "x=" + x.name + ",y=" + y.name
					if pn != "" {
						c.fail(tt.name, name, "panic", id, pn)
						continue
					}
					if !eq(z, want) {
						c.fail(tt.name, name, "wrong-value", id, "differs from the generic model")
					}
					if !eq(xv, x.v) || !eq(yv, y.v) {
						c.fail(tt.name, name, "operand-modified", id, "an operand was modified")
					}
				}
			}
		}
		sameT := func(i int) bool { return mt.In(i) == pt }
		switch {
		// ---------------- z.Op(x, y)
		case nin == 2 && sameT(1) && sameT(2) && ptrRet(mt):
			switch name {
			case "Add":
				bin(T.Add)
			case "Sub":
				bin(T.Sub)
			case "Mul":
				bin(T.Mul)
			case "Div":
				bin(func(x, y []*big.Int) []*big.Int {
					if T.IsZero(y) {
						return nil
					}
					return T.Mul(x, T.Inv(y))
				})
			default:
				c.unmod[tt.name+"."+name] = true
			}
		// ---------------- z.Op(x)
		case nin == 1 && sameT(1) && ptrRet(mt):
			var model func(x []*big.Int) []*big.Int
			dom := M
			switch {
			case name == "Set":
				model = func(x []*big.Int) []*big.Int { return x }
			case name == "Square":
				model = func(x []*big.Int) []*big.Int { return T.Mul(x, x) }
			case name == "Double":
				model = func(x []*big.Int) []*big.Int { return T.Add(x, x) }
			case name == "Neg":
				model = T.Neg
			case name == "Inverse":
				model = T.Inv // documented: the inverse of 0 is 0
			case name == "Conjugate" && isQuad:
				model = c.conj
			case name == "Frobenius":
				model = func(x []*big.Int) []*big.Int { return c.frobenius(x, 1) }
			case name == "FrobeniusSquare":
				model = func(x []*big.Int) []*big.Int { return c.frobenius(x, 2) }
			case name == "FrobeniusCube":
				model = func(x []*big.Int) []*big.Int { return c.frobenius(x, 3) }
			case name == "FrobeniusQuad":
				model = func(x []*big.Int) []*big.Int { return c.frobenius(x, 4) }
			case name == "MulByNonResidue" || name == "MulByNonResidueInv":
				// the non-residue the next level is built with; on the top type the documented (0,1)
				var nr []*big.Int
				if tt.level < T.Top() {
					nr = T.NonRes[tt.level+1]
				} else if c.s.GT == "" && tt.level >= 1 {
					nr = T.Zero(tt.level)
					nr[T.Dim(tt.level-1)].SetInt64(1)
				} else {
					c.unmod[tt.name+"."+name] = true
					continue
				}
				if name == "MulByNonResidueInv" {
					nr = T.Inv(nr)
				}
				model = func(x []*big.Int) []*big.Int { return T.Mul(x, nr) }
			case nrPowRe.MatchString(name) && tt.level < T.Top():
				mm := nrPowRe.FindStringSubmatch(name)
				i, j := int64(mm[1][0]-'0'), int64(mm[2][0]-'0')
				// xi^(j*(p^i-1)/6), xi the non-residue above this level
				e := new(big.Int).Exp(T.P, big.NewInt(i), nil)
				e.Sub(e, big.NewInt(1))
				six := big.NewInt(6)
				if new(big.Int).Mod(e, six).Sign() != 0 {
					c.unmod[tt.name+"."+name] = true
					continue
				}
				e.Div(e, six).Mul(e, big.NewInt(j))
				gam := T.Exp(T.NonRes[tt.level+1], e)
				model = func(x []*big.Int) []*big.Int { return T.Mul(x, gam) }
			case name == "MulBybTwistCurveCoeff" && c.s.TwistB != nil && len(c.s.TwistB) == tt.dim:
				model = func(x []*big.Int) []*big.Int { return T.Mul(x, c.s.TwistB) }
			case name == "MulAssign":
				// z *= x, handled below as in-place
				for _, x := range M {
					for _, z0 := range M {
						z := c.newVal(tt, z0.v)
						_, pn := call(z, c.newVal(tt, x.v))
						id := "z=" + z0.name + ",x=" + x.name
						if pn != "" {
							c.fail(tt.name, name, "panic", id, pn)
						} else if !eq(z, T.Mul(z0.v, x.v)) {
							c.fail(tt.name, name, "wrong-value", id, "differs from the generic model")
						}
					}
				}
				continue
			case name == "Sqrt":
				for _, x := range M {
					sq := T.Mul(x.v, x.v) // squares of the menu: guaranteed residues
					z := c.garbage(tt)
					_, pn := call(z, c.newVal(tt, sq))
					if pn != "" {
						c.fail(tt.name, name, "panic", "x=("+x.name+")^2", pn)
						continue
					}
					got := c.read(z)
					if !T.Equal(T.Mul(got, got), sq) {
						c.fail(tt.name, name, "wrong-value", "x=("+x.name+")^2", "the result does not square to the operand")
					}
				}
				continue
			case top && CY != nil && name == "CyclotomicSquare":
				model, dom = func(x []*big.Int) []*big.Int { return T.Mul(x, x) }, CY
			case top && CY != nil && name == "InverseUnitary":
				model, dom = T.Inv, append(append([]namedElt{}, CY...), namedElt{"-1", T.Neg(T.One(tt.level))})
			case top && CY != nil && c.s.XGen != nil && c.fixedExp(name) != nil:
				e := c.fixedExp(name)
				model, dom = func(x []*big.Int) []*big.Int { return T.Exp(x, e) }, CY
			case top && CY != nil && name == "CyclotomicSquareCompressed":
				// with DecompressKarabina: the pair must square
				if _, ok := pt.MethodByName("DecompressKarabina"); !ok {
					c.unmod[tt.name+"."+name] = true
					continue
				}
				for _, x := range CY {
					z := c.garbage(tt)
					xv := c.newVal(tt, x.v)
					var pn string
					var res reflect.Value
					pn = Guard(func() {
						z.MethodByName("CyclotomicSquareCompressed").Call([]reflect.Value{xv})
						res = c.garbage(tt)
						res.MethodByName("DecompressKarabina").Call([]reflect.Value{z})
					})
					c.n++
					if pn != "" {
						c.fail(tt.name, "CyclotomicSquareCompressed+DecompressKarabina", "panic", "x="+x.name, pn)
					} else if !eq(res, T.Mul(x.v, x.v)) {
						c.fail(tt.name, "CyclotomicSquareCompressed+DecompressKarabina", "wrong-value", "x="+x.name, "decompressed compressed square differs from x^2")
					}
					// in place decompression as well
					pn = Guard(func() { z.MethodByName("DecompressKarabina").Call([]reflect.Value{z}) })
					if pn != "" {
						c.fail(tt.name, "DecompressKarabina", "panic", "in-place,x="+x.name, pn)
					} else if !eq(z, T.Mul(x.v, x.v)) {
						c.fail(tt.name, "DecompressKarabina", "wrong-value", "in-place,x="+x.name, "in-place decompression differs from x^2")
					}
				}
				continue
			case name == "DecompressKarabina":
				continue // covered with CyclotomicSquareCompressed
			}
			if model == nil {
				c.unmod[tt.name+"."+name] = true
				continue
			}
			un(model, dom)
		// ---------------- z.Exp(x T, k *big.Int)
		case nin == 2 && mt.In(1) == tt.rt && mt.In(2) == bigT && ptrRet(mt):
			dom := M
			switch name {
			case "Exp":
			case "CyclotomicExp":
				dom = CY
			case "ExpGLV":
				dom = nil
				for _, e := range CY {
					if strings.HasPrefix(e.name, "GT") || e.name == "1" {
						dom = append(dom, e)
					}
				}
			default:
				c.unmod[tt.name+"."+name] = true
				continue
			}
			if dom == nil {
				c.unmod[tt.name+"."+name+" (no domain elements)"] = true
				continue
			}
			q := T.Size(tt.level)
			exps := []*big.Int{big.NewInt(0), big.NewInt(1), big.NewInt(2), big.NewInt(3), big.NewInt(-1), big.NewInt(-2), big.NewInt(255), big.NewInt(256),
				new(big.Int).Set(T.P), new(big.Int).Sub(q, big.NewInt(1)), new(big.Int).Sub(q, big.NewInt(2)),
				new(big.Int).Neg(c.rnd("exp", 0)), new(big.Int).Mul(c.rnd("exp", 1), c.rnd("exp", 2))}
			// machine-word boundaries of the exponent (and of its endomorphism-split halves)
			for _, wb := range []uint{63, 64, 127, 128, 191, 192} {
				p2 := new(big.Int).Lsh(big.NewInt(1), wb)
				exps = append(exps, p2, new(big.Int).Sub(p2, big.NewInt(1)))
			}
			exps = append(exps, new(big.Int).Neg(new(big.Int).Lsh(big.NewInt(1), 63)))
			if c.s.R != nil {
				exps = append(exps, new(big.Int).Set(c.s.R), new(big.Int).Sub(c.s.R, big.NewInt(1)), new(big.Int).Add(c.s.R, big.NewInt(1)), new(big.Int).Neg(c.s.R))
			}
			if len(dom) > 12 {
				// the full menu for the three smallest exponent classes, the structured third of it for the long ones
				dom = append(append([]namedElt{}, dom[:6]...), dom[len(dom)-4:]...)
			}
			for _, x := range dom {
				for _, k := range exps {
					if c.s.Quick && tt.dim >= 4 && k.BitLen() > 800 {
						continue // the long exponents (q-1, q-2, products) are left to the thorough tier
					}
					if T.IsZero(x.v) && k.Sign() < 0 {
						continue
					}
					want := T.Exp(x.v, k)
					z := c.garbage(tt)
					k0 := new(big.Int).Set(k)
					_, pn := call(z, c.newVal(tt, x.v).Elem(), reflect.ValueOf(k))
					id := fmt.Sprintf("x=%s,k=%s", x.name, shortInt(k))
					if pn != "" {
						c.fail(tt.name, name, "panic", id, pn)
						continue
					}
					if !eq(z, want) {
						c.fail(tt.name, name, "wrong-value", id, "differs from square-and-multiply in the generic model")
					}
					if k.Cmp(k0) != 0 {
						c.fail(tt.name, name, "exponent-modified", id, "the exponent was modified")
					}
				}
			}
		// ---------------- z.MulByElement(x *T, y *S) / MulByE2
		case nin == 2 && sameT(1) && c.typeOfPtr(mt.In(2)) != nil && mt.In(2) != pt && ptrRet(mt) && (name == "MulByElement" || strings.HasPrefix(name, "MulByE")):
			st := c.typeOfPtr(mt.In(2))
			if st.level >= tt.level {
				c.unmod[tt.name+"."+name] = true
				continue
			}
			for _, x := range M {
				for si, y := range c.slotMenu(st.level, false) {
					z := c.garbage(tt)
					_, pn := call(z, c.newVal(tt, x.v), c.newVal(st, y))
					id := fmt.Sprintf("x=%s,y=#%d", x.name, si)
					if pn != "" {
						c.fail(tt.name, name, "panic", id, pn)
					} else if !eq(z, T.Mul(x.v, T.Embed(y, tt.level))) {
						c.fail(tt.name, name, "wrong-value", id, "differs from the product with the embedded sub-field element")
					}
				}
			}
		// ---------------- sparse products z.MulByDIGITS(slots...) / z.MulByDIGITS(*[5]slot)
		case digitsRe.MatchString(name) && ptrRet(mt):
			digits := digitsRe.FindStringSubmatch(name)[1]
			var st *towerType
			arr := false
			if nin == 1 && mt.In(1).Kind() == reflect.Ptr && mt.In(1).Elem().Kind() == reflect.Array && mt.In(1).Elem().Elem().Kind() != reflect.Uint64 && mt.In(1).Elem().Elem().Kind() != reflect.Uint32 {
				st = c.typeOfVal(mt.In(1).Elem().Elem())
				arr = true
			} else if nin == 1 && mt.In(1).Kind() == reflect.Ptr && mt.In(1).Elem().Kind() == reflect.Array && mt.In(1).Elem().Len() == len(digits) && c.typeOfVal(mt.In(1).Elem().Elem()) != nil && c.typeOfPtr(mt.In(1)) == nil {
				st = c.typeOfVal(mt.In(1).Elem().Elem())
				arr = true
			} else if nin == len(digits) {
				st = c.typeOfPtr(mt.In(1))
			}
			if st == nil {
				c.unmod[tt.name+"."+name] = true
				continue
			}
			menus := make([][][]*big.Int, len(digits))
			for i := range menus {
				menus[i] = c.slotMenu(st.level, len(digits) > 3)
			}
			ok := true
			product(menus, func(sel [][]*big.Int) {
				if !ok {
					return
				}
				sp, good := c.sparse(tt, digits, sel)
				if !good {
					ok = false
					return
				}
				zm := M
				if len(digits) > 3 && len(M) > 8 {
					zm = append(append([]namedElt{}, M[:3]...), M[len(M)-5:]...)
				}
				for _, z0 := range zm {
					z := c.newVal(tt, z0.v)
					var args []reflect.Value
					if arr {
						a := reflect.New(mt.In(1).Elem())
						for i := range sel {
							Unflatten(a.Elem().Index(i).Addr().Interface(), sel[i])
						}
						args = []reflect.Value{a}
					} else {
						for i := range sel {
							args = append(args, c.newVal(st, sel[i]))
						}
					}
					_, pn := call(z, args...)
					id := fmt.Sprintf("z=%s,sparse=%v", z0.name, shortVec(sel))
					if pn != "" {
						c.fail(tt.name, name, "panic", id, pn)
					} else if !eq(z, T.Mul(z0.v, sp)) {
						c.fail(tt.name, name, "wrong-value", id, "differs from the full product with the documented sparse element")
					}
				}
			})
			if !ok {
				c.unmod[tt.name+"."+name] = true
			}
		// ---------------- z.Halve()
		case nin == 0 && mt.NumOut() == 0 && name == "Halve":
			half := new(big.Int).ModInverse(big.NewInt(2), T.P)
			for _, x := range M {
				z := c.newVal(tt, x.v)
				_, pn := call(z)
				want := T.Copy(x.v)
				for i := range want {
					want[i].Mul(want[i], half).Mod(want[i], T.P)
				}
				if pn != "" {
					c.fail(tt.name, name, "panic", "z="+x.name, pn)
				} else if !eq(z, want) {
					c.fail(tt.name, name, "wrong-value", "z="+x.name, "differs from z/2")
				}
			}
		// ---------------- predicates
		case nin == 0 && mt.NumOut() == 1 && mt.Out(0).Kind() == reflect.Bool:
			dom := M
			var model func(x []*big.Int) bool
			switch name {
			case "IsZero":
				model = T.IsZero
			case "IsOne":
				model = func(x []*big.Int) bool { return T.Equal(x, T.One(tt.level)) }
			case "IsInSubGroup":
				if c.s.R == nil || !top {
					c.unmod[tt.name+"."+name] = true
					continue
				}
				dom = append(append([]namedElt{}, CY...), M[1:]...) // every non-zero menu element + cyclotomic / GT members
				if c.s.Quick && len(M) > 12 {
					dom = append(append(append([]namedElt{}, CY...), M[1:6]...), M[len(M)-6:]...)
				}
				model = func(x []*big.Int) bool { return T.Equal(T.Exp(x, c.s.R), T.One(tt.level)) }
			default:
				c.unmod[tt.name+"."+name] = true
				continue
			}
			for _, x := range dom {
				out, pn := call(c.newVal(tt, x.v))
				if pn != "" {
					c.fail(tt.name, name, "panic", "x="+x.name, pn)
				} else if got, want := out[0].Bool(), model(x.v); got != want {
					c.fail(tt.name, name, fmt.Sprintf("wrong-%v", got), "x="+x.name, fmt.Sprintf("returns %v, the model says %v", got, want))
				}
			}
		case nin == 1 && sameT(1) && mt.NumOut() == 1 && mt.Out(0).Kind() == reflect.Bool && name == "Equal":
			for i, x := range M {
				for j, y := range M {
					out, pn := call(c.newVal(tt, x.v), c.newVal(tt, y.v))
					if pn != "" {
						c.fail(tt.name, name, "panic", x.name+","+y.name, pn)
					} else if out[0].Bool() != T.Equal(x.v, y.v) {
						c.fail(tt.name, name, "wrong", x.name+","+y.name, fmt.Sprintf("menu elements #%d, #%d", i, j))
					}
				}
			}
		case nin == 0 && mt.NumOut() == 1 && mt.Out(0).Kind() == reflect.Int && name == "Legendre":
			for _, x := range M {
				want := 1
				if T.IsZero(x.v) {
					want = 0
				} else if !T.IsSquare(x.v) {
					want = -1
				}
				out, pn := call(c.newVal(tt, x.v))
				if pn != "" {
					c.fail(tt.name, name, "panic", "x="+x.name, pn)
				} else if int(out[0].Int()) != want {
					c.fail(tt.name, name, "wrong-value", "x="+x.name, fmt.Sprintf("returns %d, Euler's criterion in the model says %d", out[0].Int(), want))
				}
			}
		case name == "Select" && nin == 3:
			for _, cond := range []int{0, 1, -1, 7} {
				a, b := M[len(M)-1], M[len(M)-2]
				z := c.garbage(tt)
				_, pn := call(z, reflect.ValueOf(cond), c.newVal(tt, a.v), c.newVal(tt, b.v))
				want := a.v
				if cond != 0 {
					want = b.v
				}
				if pn != "" {
					c.fail(tt.name, name, "panic", fmt.Sprint(cond), pn)
				} else if !eq(z, want) {
					c.fail(tt.name, name, "wrong-value", fmt.Sprint(cond), "selects the wrong case")
				}
			}
		// ---------------- torus compression
		case name == "CompressTorus" && nin == 0 && mt.NumOut() == 2 && mt.Out(1) == errT:
			ct := c.typeOfVal(mt.Out(0))
			if ct == nil || CY == nil {
				c.unmod[tt.name+"."+name] = true
				continue
			}
			dm, okd := reflect.PtrTo(ct.rt).MethodByName("DecompressTorus")
			if !okd {
				c.unmod[tt.name+"."+name] = true
				continue
			}
			_ = dm
			dom := append(append([]namedElt{}, CY...), namedElt{"-1", T.Neg(T.One(tt.level))})
			for _, x := range dom {
				out, pn := call(c.newVal(tt, x.v))
				if pn != "" {
					c.fail(tt.name, name, "panic", "x="+x.name, pn)
					continue
				}
				// documented: C1 == 0 only for +-1, which cannot be compressed => error
				c1zero := T.IsZero(x.v[tt.dim/2:])
				isErr := !out[1].IsNil()
				if isErr != c1zero {
					c.fail(tt.name, name, fmt.Sprintf("error-%v", isErr), "x="+x.name, fmt.Sprintf("error=%v although C1==0 is %v", isErr, c1zero))
					continue
				}
				if isErr {
					continue
				}
				comp := reflect.New(ct.rt)
				comp.Elem().Set(out[0])
				var back []reflect.Value
				pn = Guard(func() { back = comp.MethodByName("DecompressTorus").Call(nil) })
				c.n++
				if pn != "" {
					c.fail(ct.name, "DecompressTorus", "panic", "x="+x.name, pn)
					continue
				}
				res := reflect.New(tt.rt)
				res.Elem().Set(back[0])
				if !eq(res, x.v) {
					c.fail(tt.name, "CompressTorus+DecompressTorus", "wrong-value", "x="+x.name, "decompression of the compressed element differs from the element")
				}
			}
		case name == "DecompressTorus":
			// covered from the compressing side
		default:
			c.unmod[tt.name+"."+name] = true
		}
	}
}

func shortInt(k *big.Int) string {
	s := k.Text(16)
	if len(s) > 20 {
		return fmt.Sprintf("%s..(%dbits)", s[:12], k.BitLen())
	}
	return s
}

func shortVec(sel [][]*big.Int) string {
	var parts []string
	for _, s := range sel {
		h := sha256.New()
		allz, one := true, true
		for i, v := range s {
			h.Write([]byte(v.Text(16) + ","))
			if v.Sign() != 0 {
				allz = false
			}
			if (i == 0 && v.Cmp(big.NewInt(1)) != 0) || (i > 0 && v.Sign() != 0) {
				one = false
			}
		}
		switch {
		case allz:
			parts = append(parts, "0")
		case one:
			parts = append(parts, "1")
		default:
			parts = append(parts, fmt.Sprintf("%x", h.Sum(nil)[:3]))
		}
	}
	return "[" + strings.Join(parts, " ") + "]"
}

// ---- package-level functions: batch inversion / (de)compression, products of sparse elements
func (c *towerChk) checkFuncs() {
	T := c.T
	var fnames []string
	for n := range c.s.Funcs {
		fnames = append(fnames, n)
	}
	sort.Strings(fnames)
	errT := reflect.TypeOf((*error)(nil)).Elem()
	for _, name := range fnames {
		if c.r.Expired(c.g) {
			return
		}
		fv := reflect.ValueOf(c.s.Funcs[name])
		ft := fv.Type()
		switch {
		case strings.HasPrefix(name, "BatchInvert") && ft.NumIn() == 1 && ft.In(0).Kind() == reflect.Slice && ft.NumOut() == 1 && ft.Out(0) == ft.In(0):
			tt := c.typeOfVal(ft.In(0).Elem())
			if tt == nil {
				c.unmod[name] = true
				continue
			}
			M := c.menu(tt.level)
			// every length 0..3 over {0, 1, a, b}, then the whole menu, zeros at every position
			small := []namedElt{M[0], M[1], M[len(M)-1], M[len(M)-2]}
			var vecs [][]namedElt
			vecs = append(vecs, nil)
			for l := 1; l <= 3; l++ {
				idx := make([]int, l)
				for {
					v := make([]namedElt, l)
					for i := range v {
						v[i] = small[idx[i]]
					}
					vecs = append(vecs, v)
					k := 0
					for ; k < l; k++ {
						idx[k]++
						if idx[k] < len(small) {
							break
						}
						idx[k] = 0
					}
					if k == l {
						break
					}
				}
			}
			vecs = append(vecs, M)
			for _, v := range vecs {
				in := reflect.MakeSlice(ft.In(0), len(v), len(v))
				var names []string
				for i := range v {
					Unflatten(in.Index(i).Addr().Interface(), v[i].v)
					names = append(names, v[i].name)
				}
				var out []reflect.Value
				pn := Guard(func() { out = fv.Call([]reflect.Value{in}) })
				c.n++
				id := "[" + strings.Join(names, " ") + "]"
				if len(id) > 120 {
					id = fmt.Sprintf("whole menu (%d elements)", len(v))
				}
				if pn != "" {
					c.fail("pkg", name, "panic", id, pn)
					continue
				}
				if out[0].Len() != len(v) {
					c.fail("pkg", name, "wrong-length", id, "result length differs")
					continue
				}
				for i := range v {
					if !T.Equal(Flatten(out[0].Index(i).Addr().Interface()), T.Inv(v[i].v)) {
						c.fail("pkg", name, "wrong-value", id, fmt.Sprintf("entry %d differs from the inverse (0 for 0)", i))
						break
					}
					if !T.Equal(Flatten(in.Index(i).Addr().Interface()), v[i].v) {
						c.fail("pkg", name, "operand-modified", id, "the input slice was modified")
						break
					}
				}
			}
		case digits2Re.MatchString(name):
			mm := digits2Re.FindStringSubmatch(name)
			d1, d2 := mm[1], mm[2]
			if ft.NumIn() != len(d1)+len(d2) || ft.NumOut() != 1 || ft.Out(0).Kind() != reflect.Array || ft.Out(0).Len() != 5 {
				c.unmod[name] = true
				continue
			}
			st := c.typeOfPtr(ft.In(0))
			gt := c.types[c.s.GT]
			if st == nil || gt == nil {
				c.unmod[name] = true
				continue
			}
			menus := make([][][]*big.Int, ft.NumIn())
			for i := range menus {
				menus[i] = c.slotMenu(st.level, true)
			}
			bad := false
			product(menus, func(sel [][]*big.Int) {
				if bad {
					return
				}
				// documented argument order: (d..., c...)
				a, ok1 := c.sparse(gt, d1, sel[:len(d1)])
				b, ok2 := c.sparse(gt, d2, sel[len(d1):])
				if !ok1 || !ok2 {
					bad = true
					return
				}
				want := T.Mul(a, b)
				var args []reflect.Value
				for i := range sel {
					args = append(args, c.newVal(st, sel[i]))
				}
				var out []reflect.Value
				pn := Guard(func() { out = fv.Call(args) })
				c.n++
				id := "args=" + shortVec(sel)
				if pn != "" {
					c.fail("pkg", name, "panic", id, pn)
					return
				}
				// the 5 returned slots are those that can be non-zero in the product: find the one missing slot from the model
				sd := len(sel[0])
				nsl := gt.dim / sd
				var got [][]*big.Int
				arrv := reflect.New(ft.Out(0)).Elem()
				arrv.Set(out[0])
				for i := 0; i < 5; i++ {
					got = append(got, Flatten(arrv.Index(i).Addr().Interface()))
				}
				// candidate layouts: 01234 (slot 5 zero) or 01245 (slot 3 zero)
				match := false
				for _, layout := range [][]int{{0, 1, 2, 3, 4}, {0, 1, 2, 4, 5}} {
					if nsl != 6 {
						break
					}
					e := T.Zero(gt.level)
					for i, k := range layout {
						for q := 0; q < sd; q++ {
							e[k*sd+q].Set(got[i][q])
						}
					}
					if T.Equal(e, want) {
						match = true
					}
				}
				if !match {
					c.fail("pkg", name, "wrong-value", id, "the returned 5 coefficients are not the product of the two documented sparse elements")
				}
			})
			if bad {
				c.unmod[name] = true
			}
		case name == "BatchDecompressKarabina" && ft.NumIn() == 1 && ft.NumOut() == 1:
			tt := c.typeOfVal(ft.In(0).Elem())
			if tt == nil || tt.name != c.s.GT {
				c.unmod[name] = true
				continue
			}
			CY := c.cyclo(tt.level)
			pt := reflect.PtrTo(tt.rt)
			if _, ok := pt.MethodByName("CyclotomicSquareCompressed"); !ok || CY == nil {
				c.unmod[name] = true
				continue
			}
			// the whole cyclotomic menu in one batch, then x = 1 at each position of a batch of three
			var batches [][]namedElt
			batches = append(batches, CY, nil, CY[:1])
			for pos := 0; pos < 3; pos++ {
				b := []namedElt{CY[1], CY[2], CY[3]}
				b[pos] = CY[0]
				batches = append(batches, b)
			}
			batches = append(batches, []namedElt{CY[0], CY[0]})
			for bi, b := range batches {
				in := reflect.MakeSlice(ft.In(0), len(b), len(b))
				pn := Guard(func() {
					for i := range b {
						xv := c.newVal(tt, b[i].v)
						in.Index(i).Addr().MethodByName("CyclotomicSquareCompressed").Call([]reflect.Value{xv})
					}
				})
				var out []reflect.Value
				if pn == "" {
					pn = Guard(func() { out = fv.Call([]reflect.Value{in}) })
				}
				c.n++
				id := fmt.Sprintf("batch#%d(len %d)", bi, len(b))
				if pn != "" {
					c.fail("pkg", name, "panic", id, pn)
					continue
				}
				if out[0].Len() != len(b) {
					c.fail("pkg", name, "wrong-length", id, "")
					continue
				}
				for i := range b {
					if !T.Equal(Flatten(out[0].Index(i).Addr().Interface()), T.Mul(b[i].v, b[i].v)) {
						c.fail("pkg", name, "wrong-value", id, fmt.Sprintf("entry %d (%s) differs from x^2", i, b[i].name))
						break
					}
				}
			}
		case name == "BatchCompressTorus" && ft.NumIn() == 1 && ft.NumOut() == 2 && ft.Out(1) == errT:
			tt := c.typeOfVal(ft.In(0).Elem())
			dec, okd := c.s.Funcs["BatchDecompressTorus"]
			if tt == nil || tt.name != c.s.GT || !okd {
				c.unmod[name] = true
				continue
			}
			CY := c.cyclo(tt.level)
			if CY == nil {
				c.unmod[name] = true
				continue
			}
			good := CY[1:]
			var batches [][]namedElt
			batches = append(batches, good, nil, good[:1])
			for pos := 0; pos < 3; pos++ { // an incompressible member (1) at each position => error
				b := []namedElt{good[0], good[1], good[2]}
				b[pos] = CY[0]
				batches = append(batches, b)
			}
			for bi, b := range batches {
				in := reflect.MakeSlice(ft.In(0), len(b), len(b))
				wantErr := len(b) == 0
				for i := range b {
					Unflatten(in.Index(i).Addr().Interface(), b[i].v)
					if T.IsZero(b[i].v[tt.dim/2:]) {
						wantErr = true
					}
				}
				var out []reflect.Value
				pn := Guard(func() { out = fv.Call([]reflect.Value{in}) })
				c.n++
				id := fmt.Sprintf("batch#%d(len %d)", bi, len(b))
				if pn != "" {
					c.fail("pkg", name, "panic", id, pn)
					continue
				}
				if isErr := !out[1].IsNil(); isErr != wantErr {
					c.fail("pkg", name, fmt.Sprintf("error-%v", isErr), id, fmt.Sprintf("error=%v, documented: error iff empty or some C1 == 0 (%v)", isErr, wantErr))
					continue
				}
				if wantErr {
					continue
				}
				var back []reflect.Value
				pn = Guard(func() { back = reflect.ValueOf(dec).Call([]reflect.Value{out[0]}) })
				if pn != "" {
					c.fail("pkg", "BatchDecompressTorus", "panic", id, pn)
					continue
				}
				if len(back) == 2 && !back[1].IsNil() {
					c.fail("pkg", "BatchDecompressTorus", "error", id, "error on the output of BatchCompressTorus")
					continue
				}
				for i := range b {
					if back[0].Len() != len(b) || !T.Equal(Flatten(back[0].Index(i).Addr().Interface()), b[i].v) {
						c.fail("pkg", "BatchCompressTorus+BatchDecompressTorus", "wrong-value", id, fmt.Sprintf("entry %d (%s) does not round-trip", i, b[i].name))
						break
					}
				}
			}
		case name == "BatchDecompressTorus":
		default:
			c.unmod[name] = true
		}
	}
}
