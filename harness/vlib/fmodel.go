package vlib

import (
	"math/big"
	"math/rand"
	"sort"
)

// FpModel is the boring reference for a prime field whose implementation stores
// x*R mod q in `Limbs` words of `LimbBits` bits. Nothing here comes from the library
// except the modulus (part of the specification).
type FpModel struct {
	Q        *big.Int
	Limbs    int
	LimbBits int
	R        *big.Int // 2^(Limbs*LimbBits)
	Rq       *big.Int // R mod q
	Rinv     *big.Int // R^-1 mod q
	QLimbs   []uint64
}

func NewFpModel(q *big.Int, limbs, limbBits int) *FpModel {
	m := &FpModel{Q: new(big.Int).Set(q), Limbs: limbs, LimbBits: limbBits}
	m.R = new(big.Int).Lsh(big.NewInt(1), uint(limbs*limbBits))
	m.Rq = new(big.Int).Mod(m.R, q)
	m.Rinv = new(big.Int).ModInverse(m.Rq, q)
	m.QLimbs = m.Split(q)
	return m
}

// Split an integer < R into little-endian limbs.
func (m *FpModel) Split(v *big.Int) []uint64 {
	out := make([]uint64, m.Limbs)
	t := new(big.Int).Set(v)
	mask := new(big.Int).Sub(new(big.Int).Lsh(big.NewInt(1), uint(m.LimbBits)), big.NewInt(1))
	for i := range out {
		out[i] = new(big.Int).And(t, mask).Uint64()
		t.Rsh(t, uint(m.LimbBits))
	}
	return out
}

func (m *FpModel) Join(l []uint64) *big.Int {
	v := new(big.Int)
	for i := len(l) - 1; i >= 0; i-- {
		v.Lsh(v, uint(m.LimbBits))
		v.Or(v, new(big.Int).SetUint64(l[i]))
	}
	return v
}

// Value of internal limbs: limbs*R^-1 mod q.
func (m *FpModel) Value(l []uint64) *big.Int {
	v := m.Join(l)
	v.Mul(v, m.Rinv)
	return v.Mod(v, m.Q)
}

// Internal limbs of the regular value v (any integer).
func (m *FpModel) Internal(v *big.Int) []uint64 {
	t := new(big.Int).Mod(v, m.Q)
	t.Mul(t, m.Rq)
	t.Mod(t, m.Q)
	return m.Split(t)
}

func (m *FpModel) Canonical(l []uint64) bool { return m.Join(l).Cmp(m.Q) < 0 }

func (m *FpModel) Mod(v *big.Int) *big.Int { return new(big.Int).Mod(v, m.Q) }

func (m *FpModel) Inv(v *big.Int) *big.Int {
	if new(big.Int).Mod(v, m.Q).Sign() == 0 {
		return new(big.Int)
	}
	return new(big.Int).ModInverse(v, m.Q)
}

// Euler criterion: 0, 1 or -1.
func (m *FpModel) Legendre(v *big.Int) int {
	t := new(big.Int).Mod(v, m.Q)
	if t.Sign() == 0 {
		return 0
	}
	e := new(big.Int).Rsh(new(big.Int).Sub(m.Q, big.NewInt(1)), 1)
	t.Exp(t, e, m.Q)
	if t.Cmp(big.NewInt(1)) == 0 {
		return 1
	}
	return -1
}

func (m *FpModel) Exp(x, k *big.Int) *big.Int {
	b := new(big.Int).Mod(x, m.Q)
	if k.Sign() < 0 {
		b = m.Inv(b)
		return new(big.Int).Exp(b, new(big.Int).Neg(k), m.Q)
	}
	return new(big.Int).Exp(b, k, m.Q)
}

// Lattice returns internal-representation integers (< q): the boundary lattice built
// from internal limbs plus the semantic specials given in regular form. Deterministic in
// (size, seed). `size` bounds the number of lattice values (specials always included).
func (m *FpModel) Lattice(size int, seed int64) []*big.Int {
	rng := rand.New(rand.NewSource(seed*7919 + int64(m.Limbs)*131 + int64(m.Q.BitLen())))
	max := uint64(1)<<uint(m.LimbBits-1)<<1 - 1 // 2^LimbBits - 1
	rnd := func() uint64 { return rng.Uint64() & max }
	seen := map[string]bool{}
	var out []*big.Int
	add := func(v *big.Int) {
		// keep value and its reduction
		t := new(big.Int).Set(v)
		if t.Cmp(m.Q) >= 0 {
			t2 := new(big.Int).Sub(t, m.Q)
			if t2.Cmp(m.Q) < 0 {
				t = t2
			} else {
				t.Mod(t, m.Q)
			}
		}
		k := t.String()
		if !seen[k] {
			seen[k] = true
			out = append(out, t)
		}
	}
	// semantic specials (regular form)
	one := big.NewInt(1)
	qm1 := new(big.Int).Sub(m.Q, one)
	half := new(big.Int).Rsh(qm1, 1)
	spec := []*big.Int{big.NewInt(0), one, big.NewInt(2), big.NewInt(3), qm1, new(big.Int).Sub(m.Q, big.NewInt(2)), half, new(big.Int).Add(half, one),
		m.Rq, new(big.Int).Mod(new(big.Int).Mul(m.Rq, m.Rq), m.Q), new(big.Int).Sub(m.Q, m.Rq), m.Rinv}
	for k := 1; k < m.Q.BitLen(); k += 7 {
		p := new(big.Int).Lsh(one, uint(k))
		spec = append(spec, p, new(big.Int).Sub(p, one))
	}
	for k := m.LimbBits; k < m.Q.BitLen(); k += m.LimbBits {
		p := new(big.Int).Lsh(one, uint(k))
		spec = append(spec, p, new(big.Int).Sub(p, one), new(big.Int).Add(p, one))
	}
	for _, s := range spec {
		add(m.Join(m.Internal(s)))
		add(new(big.Int).Mod(s, m.Q)) // the same bit pattern as an internal value
	}
	nSpec := len(out)
	// internal-limb lattice
	alpha := func(i int) []uint64 {
		qi := m.QLimbs[i]
		a := []uint64{0, 1, max, max - 1, uint64(1) << uint(m.LimbBits-1), qi, (qi - 1) & max, (qi + 1) & max, rnd()}
		if m.LimbBits == 64 {
			a = append(a, 1<<32-1, 1<<32)
		}
		return a
	}
	bases := [][]uint64{make([]uint64, m.Limbs), append([]uint64{}, m.QLimbs...)}
	ff := make([]uint64, m.Limbs)
	rr := make([]uint64, m.Limbs)
	for i := range ff {
		ff[i] = max
		rr[i] = rnd()
	}
	rr[m.Limbs-1] = m.QLimbs[m.Limbs-1] / 2
	bases = append(bases, ff, rr)
	if m.Limbs == 1 {
		for _, a := range alpha(0) {
			add(m.Join([]uint64{a}))
		}
	}
	var lat []*big.Int
	seenL := map[string]bool{}
	addL := func(l []uint64) {
		v := m.Join(l)
		if !seenL[v.String()] {
			seenL[v.String()] = true
			lat = append(lat, v)
		}
	}
	for _, b := range bases {
		for i := 0; i < m.Limbs; i++ {
			for _, ai := range alpha(i) {
				l := append([]uint64{}, b...)
				l[i] = ai
				addL(l)
				for j := i + 1; j < m.Limbs; j++ {
					for _, aj := range alpha(j) {
						l2 := append([]uint64{}, l...)
						l2[j] = aj
						addL(l2)
					}
				}
			}
		}
	}
	// deterministic thinning to `size`
	if len(lat) > size {
		rng.Shuffle(len(lat), func(i, j int) { lat[i], lat[j] = lat[j], lat[i] })
		lat = lat[:size]
	}
	sort.Slice(lat, func(i, j int) bool { return lat[i].Cmp(lat[j]) < 0 })
	for _, v := range lat {
		add(v)
	}
	// a few generic values
	for i := 0; i < 8; i++ {
		l := make([]uint64, m.Limbs)
		for j := range l {
			l[j] = rnd()
		}
		add(m.Join(l))
	}
	_ = nSpec
	return out
}

// SpecialsFirst returns the first n lattice members (specials come first by construction).
func FirstN(v []*big.Int, n int) []*big.Int {
	if len(v) < n {
		return v
	}
	return v[:n]
}
