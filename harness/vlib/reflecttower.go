package vlib

import (
	"math/big"
	"reflect"
)

// Flatten walks a tower element (nested structs whose leaves are prime-field elements, i.e.
// array types with BigInt/SetBigInt methods) in declaration order and returns the regular
// values of the leaves: exactly the coefficient vector the Tower model uses.
func Flatten(ptr any) []*big.Int {
	var out []*big.Int
	flatten(reflect.ValueOf(ptr).Elem(), &out)
	return out
}

func flatten(v reflect.Value, out *[]*big.Int) {
	if v.Kind() == reflect.Array {
		m := v.Addr().MethodByName("BigInt")
		if !m.IsValid() {
			panic("Flatten: leaf without BigInt")
		}
		r := m.Call([]reflect.Value{reflect.ValueOf(new(big.Int))})
		*out = append(*out, r[0].Interface().(*big.Int))
		return
	}
	if v.Kind() != reflect.Struct {
		panic("Flatten: unexpected kind " + v.Kind().String())
	}
	for i := 0; i < v.NumField(); i++ {
		flatten(v.Field(i), out)
	}
}

// Unflatten sets a tower element from a coefficient vector (inverse of Flatten).
func Unflatten(ptr any, c []*big.Int) {
	i := 0
	unflatten(reflect.ValueOf(ptr).Elem(), c, &i)
	if i != len(c) {
		panic("Unflatten: dimension mismatch")
	}
}

func unflatten(v reflect.Value, c []*big.Int, i *int) {
	if v.Kind() == reflect.Array {
		m := v.Addr().MethodByName("SetBigInt")
		m.Call([]reflect.Value{reflect.ValueOf(c[*i])})
		*i++
		return
	}
	for k := 0; k < v.NumField(); k++ {
		unflatten(v.Field(k), c, i)
	}
}

// FlattenBytes is a canonical byte rendering of Flatten(ptr) (for observation digests).
func FlattenBytes(ptr any) []byte {
	var b []byte
	for _, c := range Flatten(ptr) {
		b = append(b, c.Text(16)...)
		b = append(b, ',')
	}
	return b
}


// SetRawLimbs overwrites the internal word arrays ([N]uint64 leaves, depth first) of the value p points to.
func SetRawLimbs(p any, limbs [][]uint64) {
	i := 0
	var walk func(v reflect.Value)
	walk = func(v reflect.Value) {
		switch v.Kind() {
		case reflect.Array:
			if v.Type().Elem().Kind() == reflect.Uint64 {
				for k := 0; k < v.Len(); k++ {
					v.Index(k).SetUint(limbs[i][k])
				}
				i++
				return
			}
			for k := 0; k < v.Len(); k++ {
				walk(v.Index(k))
			}
		case reflect.Struct:
			for k := 0; k < v.NumField(); k++ {
				walk(v.Field(k))
			}
		}
	}
	walk(reflect.ValueOf(p).Elem())
}
