package vlib

import (
	"fmt"
	"math/big"

	"github.com/consensys/gnark-crypto/field/pool"
)

// BigIntPoolDuplicate takes a handful of integers out of the library's shared big-integer pool and reports whether the
// pool handed out one object twice (which happens exactly when some call returned the same object to the pool twice:
// two later callers - possibly in different goroutines - would then compute in the same scratch integer). The objects
// are put back, each once. Sound under concurrency: only the caller's own outstanding objects are compared.
func BigIntPoolDuplicate() string {
	const k = 6
	got := make([]*big.Int, k)
	for i := range got {
		got[i] = pool.BigInt.Get()
	}
	bad := ""
	seen := map[*big.Int]int{}
	for i, p := range got {
		if j, ok := seen[p]; ok {
			bad = fmt.Sprintf("pool.BigInt.Get() #%d and #%d (no Put in between) returned the same *big.Int", j, i)
			continue
		}
		seen[p] = i
	}
	for p := range seen {
		pool.BigInt.Put(p)
	}
	return bad
}
