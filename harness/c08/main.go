// C08 — field-element conversions: round trips, lenient setters = residue, strict decoders
// accept exactly canonical fixed-length encodings, vector codecs; for all 23 fields.
package main

import (
	"verifh/vlib"
)

type fieldEntryRunC08 struct {
	name string
	run  func(r *vlib.Run, g string)
}

func main() {
	r := vlib.Start("C08", "exploration")
	r.Rule("per field: element lattice (as C01) through every exposing/decoding conversion; integers {0,+-1,+-(q-1),+-q,+-(q+1),+-2q,q^2,2^(64k)+-1,2^k,2^3000,...}; byte strings of every length 0..2*Bytes+1 x content classes {zeros, FF, 1-then-zeros, q-1,q,q+1 (padded, high bit)}; 45 numeric/invalid strings bare and JSON-quoted; vectors of length {0,1,2,3,17,130} with truncation at every offset and an invalid entry at every position, 3 reader chunkings; oracle math/big; non-trivial = distinct (field, class) tags")
	r.Assume("string syntax oracle is math/big SetString(base 0), which the API documents as its grammar")
	var names []string
	bodies := map[string]func(){}
	for _, f := range fieldsRunC08 {
		f := f
		names = append(names, f.name)
		bodies[f.name] = func() { f.run(r, f.name) }
	}
	r.Parallel(names, func(g string) { bodies[g]() })
	r.Finish()
}
