// C15 — Fiat-Shamir transcript: explicit-state BFS over call histories on the real
// Transcript, compared step by step with a sequential reference model.
package main

import (
	"bytes"
	"crypto/sha256"
	"encoding/hex"
	"fmt"
	"hash"
	"reflect"
	"sort"
	"strings"
	"unsafe"

	_ "github.com/consensys/gnark-crypto/ecc/bn254/fr/poseidon2"
	_ "github.com/consensys/gnark-crypto/ecc/grumpkin/fr/mimc"
	fiatshamir "github.com/consensys/gnark-crypto/fiat-shamir"
	gchash "github.com/consensys/gnark-crypto/hash"
	_ "github.com/consensys/gnark-crypto/hash/all"

	"verifh/vlib"
)

type hashSpec struct {
	name   string
	mk     func() hash.Hash
	values [][]byte
	extra  bool // explored with two names only
}

func canonN(n int, b byte) []byte { v := make([]byte, n); v[n-1] = b; v[1] = 0x01; return v }

func specs() []hashSpec {
	l := []hashSpec{
		{"sha256", sha256.New, [][]byte{{}, {7}, bytes.Repeat([]byte{0xab}, 64), {1, 2, 3}}, false},
	}
	add := func(name string, id gchash.Hash, extra bool) {
		bs := id.New().BlockSize()
		// empty, a short write (padded by MiMC), one canonical block, one non-canonical block
		l = append(l, hashSpec{name, func() hash.Hash { return id.New() }, [][]byte{{}, {1, 2, 3}, canonN(bs, 5), bytes.Repeat([]byte{0xff}, bs)}, extra})
	}
	add("mimc_bn254", gchash.MIMC_BN254, false)
	add("poseidon2_bn254", gchash.POSEIDON2_BN254, false)
	// the MiMC of every other curve (their digests are separate generated copies): two names only
	add("mimc_bls12_381", gchash.MIMC_BLS12_381, true)
	add("mimc_bls12_377", gchash.MIMC_BLS12_377, true)
	add("mimc_bw6_761", gchash.MIMC_BW6_761, true)
	add("mimc_bls24_315", gchash.MIMC_BLS24_315, true)
	add("mimc_bls24_317", gchash.MIMC_BLS24_317, true)
	add("mimc_bw6_633", gchash.MIMC_BW6_633, true)
	add("mimc_grumpkin", gchash.MIMC_GRUMPKIN, true)
	return l
}

// ---- operations ----
type op struct {
	kind int // 0 Bind, 1 Compute, 2 MutateLastBound, 3 MutateReturned(name)
	name int // index into names; len(names) = "unknown"
	val  int
}

func (o op) String() string {
	switch o.kind {
	case 0:
		return fmt.Sprintf("Bind(n%d,v%d)", o.name, o.val)
	case 1:
		return fmt.Sprintf("Compute(n%d)", o.name)
	case 2:
		return "MutLastBound"
	default:
		return fmt.Sprintf("MutReturned(n%d)", o.name)
	}
}

// ---- reference model ----
type mchal struct {
	bindings [][]byte
	value    []byte
	computed bool
}
type model struct {
	names []string
	ch    []mchal
	mk    func() hash.Hash
	// padShort: the hasher left-pads short writes (MiMC); the model pads them itself
	padShort bool
}

func (m *model) idx(name string) int {
	for i, n := range m.names {
		if n == name {
			return i
		}
	}
	return -1
}
func (m *model) bind(name string, v []byte) bool {
	i := m.idx(name)
	if i < 0 || m.ch[i].computed {
		return false
	}
	m.ch[i].bindings = append(m.ch[i].bindings, append([]byte{}, v...))
	return true
}
func (m *model) compute(name string) ([]byte, bool) {
	i := m.idx(name)
	if i < 0 {
		return nil, false
	}
	if m.ch[i].computed {
		return append([]byte{}, m.ch[i].value...), true
	}
	if i > 0 && !m.ch[i-1].computed {
		return nil, false
	}
	h := m.mk()
	// MiMC documents that a write shorter than a block is left-padded with zeros to one block: the model does that
	// padding itself, so that its hasher only ever sees whole blocks (the padding code is part of what is judged)
	pad := func(b []byte) []byte {
		if bs := h.BlockSize(); m.padShort && len(b) > 0 && len(b) < bs {
			p := make([]byte, bs)
			copy(p[bs-len(b):], b)
			return p
		}
		return b
	}
	if _, err := h.Write(pad([]byte(name))); err != nil {
		return nil, false
	}
	if i > 0 {
		if _, err := h.Write(pad(m.ch[i-1].value)); err != nil {
			return nil, false
		}
	}
	for _, b := range m.ch[i].bindings {
		if _, err := h.Write(pad(b)); err != nil {
			return nil, false
		}
	}
	m.ch[i].value = h.Sum(nil)
	m.ch[i].computed = true
	return append([]byte{}, m.ch[i].value...), true
}

// ---- exact private state of the real transcript (reflection + unsafe) ----
type sliceHdr struct {
	ptr uintptr
	n   int
}

func dump(t *fiatshamir.Transcript, held map[string][]byte) string {
	var sb strings.Builder
	rv := reflect.ValueOf(t).Elem()
	chs := rv.FieldByName("challenges")
	type ent struct {
		k string
		s string
	}
	var ents []ent
	internal := map[uintptr]string{}
	it := chs.MapRange()
	for it.Next() {
		c := it.Value()
		var s strings.Builder
		fmt.Fprintf(&s, "pos=%d comp=%v val=%s b=[", c.FieldByName("position").Int(), c.FieldByName("isComputed").Bool(), hex.EncodeToString(c.FieldByName("value").Bytes()))
		if v := c.FieldByName("value"); v.Len() > 0 {
			internal[v.Pointer()] = it.Key().String() + ".value"
		}
		bs := c.FieldByName("bindings")
		for i := 0; i < bs.Len(); i++ {
			s.WriteString(hex.EncodeToString(bs.Index(i).Bytes()) + ",")
			if bs.Index(i).Len() > 0 {
				internal[bs.Index(i).Pointer()] = fmt.Sprintf("%s.b%d", it.Key().String(), i)
			}
		}
		s.WriteString("]")
		ents = append(ents, ent{it.Key().String(), s.String()})
	}
	sort.Slice(ents, func(i, j int) bool { return ents[i].k < ents[j].k })
	for _, e := range ents {
		sb.WriteString(e.k + ":" + e.s + ";")
	}
	prev := rv.FieldByName("previous")
	if prev.IsNil() {
		sb.WriteString("prev=nil")
	} else {
		p := prev.Elem()
		fmt.Fprintf(&sb, "prev=%d/%s", p.FieldByName("position").Int(), hex.EncodeToString(p.FieldByName("value").Bytes()))
		if v := p.FieldByName("value"); v.Len() > 0 {
			if _, ok := internal[v.Pointer()]; !ok {
				internal[v.Pointer()] = "prev.value"
			}
		}
	}
	// caller-held slices: content and whether they alias internal storage
	var hk []string
	for k := range held {
		hk = append(hk, k)
	}
	sort.Strings(hk)
	for _, k := range hk {
		b := held[k]
		alias := "-"
		if len(b) > 0 {
			if w, ok := internal[uintptr(unsafe.Pointer(&b[0]))]; ok {
				alias = w
			}
		}
		fmt.Fprintf(&sb, "|%s=%s@%s", k, hex.EncodeToString(b), alias)
	}
	return sb.String()
}

// ---- one execution: replay a history on a fresh transcript and fresh model ----
type exec struct {
	t    *fiatshamir.Transcript
	m    *model
	held map[string][]byte // caller-held slices: "bound", "ret<i>"
	// what the caller expects each held returned challenge to contain (its value at return, then the caller's own edits)
	heldWant map[string][]byte
	names    []string
	spec     hashSpec
}

func newExec(spec hashSpec, names []string) *exec {
	e := &exec{t: fiatshamir.NewTranscript(spec.mk(), names...), names: names, spec: spec, held: map[string][]byte{}, heldWant: map[string][]byte{}}
	e.m = &model{names: names, ch: make([]mchal, len(names)), mk: spec.mk, padShort: strings.HasPrefix(spec.name, "mimc")}
	return e
}

func (e *exec) nameOf(i int) string {
	if i >= len(e.names) {
		return "unknown"
	}
	return e.names[i]
}

// step applies one op to the real object and the model; returns a non-empty
// description when they disagree.
func (e *exec) step(o op) string {
	if d := e.step1(o); d != "" {
		return d
	}
	// a challenge handed out earlier belongs to the caller: only the caller changes it
	var hk []string
	for k := range e.heldWant {
		hk = append(hk, k)
	}
	sort.Strings(hk)
	for _, k := range hk {
		want := e.heldWant[k]
		if !bytes.Equal(e.held[k], want) {
			return fmt.Sprintf("held challenge %s changed under the caller: %x, was %x when it was returned (or last edited by the caller)", k, e.held[k], want)
		}
	}
	return ""
}

func (e *exec) step1(o op) string {
	switch o.kind {
	case 0:
		v := append([]byte{}, e.spec.values[o.val]...)
		before := dump(e.t, nil)
		err := e.t.Bind(e.nameOf(o.name), v)
		ok := e.m.bind(e.nameOf(o.name), v)
		if (err == nil) != ok {
			return fmt.Sprintf("Bind error mismatch: real err=%v model ok=%v", err, ok)
		}
		if err != nil && dump(e.t, nil) != before {
			return "refused Bind changed the transcript"
		}
		if err == nil {
			e.held["bound"] = v
		}
	case 1:
		before := dump(e.t, nil)
		got, err := e.t.ComputeChallenge(e.nameOf(o.name))
		want, ok := e.m.compute(e.nameOf(o.name))
		if (err == nil) != ok {
			return fmt.Sprintf("ComputeChallenge error mismatch: real err=%v model ok=%v", err, ok)
		}
		if err != nil {
			if dump(e.t, nil) != before {
				return "refused ComputeChallenge changed the transcript"
			}
			return ""
		}
		if !bytes.Equal(got, want) {
			return fmt.Sprintf("challenge %s = %x, model %x", e.nameOf(o.name), got, want)
		}
		e.held[fmt.Sprintf("ret%d", o.name)] = got
		e.heldWant[fmt.Sprintf("ret%d", o.name)] = append([]byte{}, got...)
	case 2:
		if b := e.held["bound"]; len(b) > 0 {
			b[0] ^= 0x80
			b[len(b)-1] ^= 0x01
		}
	case 3:
		if b := e.held[fmt.Sprintf("ret%d", o.name)]; len(b) > 0 {
			b[0] ^= 0x40
			b[len(b)-1] ^= 0x01
			e.heldWant[fmt.Sprintf("ret%d", o.name)] = append([]byte{}, b...)
		}
	}
	return ""
}

func histString(h []op) string {
	s := make([]string, len(h))
	for i, o := range h {
		s[i] = o.String()
	}
	return strings.Join(s, ";")
}

func classify(desc string, h []op) string {
	// stable key: mismatch class + whether a caller-side mutation preceded
	cls := "value-mismatch"
	switch {
	case strings.HasPrefix(desc, "Bind error"):
		cls = "bind-error-mismatch"
	case strings.HasPrefix(desc, "ComputeChallenge error"):
		cls = "compute-error-mismatch"
	case strings.HasPrefix(desc, "refused"):
		cls = "error-not-atomic"
	case strings.HasPrefix(desc, "held challenge"):
		cls = "returned-challenge-changed-under-the-caller"
	case strings.HasPrefix(desc, "panic"):
		cls = "panic"
	}
	mut := "nomut"
	for _, o := range h {
		if o.kind == 2 {
			mut = "after-mutating-bound-slice"
		}
		if o.kind == 3 {
			mut = "after-mutating-returned-challenge"
		}
	}
	return cls + "/" + mut
}

func main() {
	r := vlib.Start("C15", "model_checking")
	r.Rule("BFS over all histories of Bind/ComputeChallenge/caller-mutation ops on the real Transcript (state = exact private state via reflection + caller-held slices with aliasing bits); every transition compared with a sequential model; non-trivial = distinct reachable states")
	r.Assume("the hash.Hash implementation itself is trusted here (a fresh instance fed the same writes is the model's oracle); it is examined by C14")
	r.Assume("challenge names are distinct")
	depthFor := map[int]int{1: 6, 2: 6, 3: 5, 4: 4}
	if r.Thorough() {
		depthFor = map[int]int{1: 8, 2: 7, 3: 6, 4: 5}
	}
	var groups []string
	bodies := map[string]func(){}
	for _, spec := range specs() {
		for k := 1; k <= 4; k++ {
			spec, k := spec, k
			// names of different lengths, longer and shorter than the short binding: a hasher that pads short writes sees
			// every order of (short write, shorter / longer next write) across the transcript's Reset calls
			names := []string{"c0", "gamma", "b", "delta"}[:k]
			if spec.name != "sha256" && k > 2 && r.Quick() {
				continue
			}
			if spec.extra && k != 2 {
				continue
			}
			group := fmt.Sprintf("%s/k%d", spec.name, k)
			groups = append(groups, group)
			depth := depthFor[k]
			if spec.extra && r.Quick() {
				depth = 5
			}
			bodies[group] = func() { explore(r, spec, names, depth, group) }
		}
	}
	// long runs of bindings (beyond the BFS depth): m_i bindings per challenge for m_i in {0,1,4,5,6,9}, bound challenge
	// after challenge or round-robin, then every challenge computed in order - against the same sequential model
	for _, spec := range specs()[:2] {
		spec := spec
		group := spec.name + "/long-binding-runs"
		groups = append(groups, group)
		bodies[group] = func() { longRuns(r, spec, group) }
	}
	r.Parallel(groups, func(g string) { bodies[g]() })
	r.Finish()
}

func longRuns(r *vlib.Run, spec hashSpec, group string) {
	ms := []int{0, 1, 4, 5, 6, 9}
	n := 0
	for k := 2; k <= 3; k++ {
		names := []string{"c0", "gamma", "b"}[:k]
		total := 1
		for i := 0; i < k; i++ {
			total *= len(ms)
		}
		for t := 0; t < total; t++ {
			cnt := make([]int, k)
			x := t
			for i := range cnt {
				cnt[i] = ms[x%len(ms)]
				x /= len(ms)
			}
			for order := 0; order < 3; order++ { // 0: challenge after challenge, 1: last challenge first, 2: round-robin
				var h []op
				switch order {
				case 0:
					for c := 0; c < k; c++ {
						for j := 0; j < cnt[c]; j++ {
							h = append(h, op{0, c, 1 + (j+c)%2})
						}
					}
				case 1:
					for c := k - 1; c >= 0; c-- {
						for j := 0; j < cnt[c]; j++ {
							h = append(h, op{0, c, 1 + (j+c)%2})
						}
					}
				default:
					left := append([]int{}, cnt...)
					for more := true; more; {
						more = false
						for c := 0; c < k; c++ {
							if left[c] > 0 {
								h = append(h, op{0, c, 1 + (left[c]+c)%2})
								left[c]--
								more = true
							}
						}
					}
				}
				for c := 0; c < k; c++ {
					h = append(h, op{1, c, 0})
				}
				e := newExec(spec, names)
				for i, o := range h {
					var d string
					if p := vlib.Guard(func() { d = e.step(o) }); p != "" {
						d = "panic: " + p
					}
					n++
					if d != "" {
						r.FailIn(group, group+"/"+classify(d, h[:i+1]), fmt.Sprintf("bindings=%v,order=%d,step=%d", cnt, order, i), d, map[string]any{"hash": spec.name, "bindings": cnt, "order": order})
						break
					}
				}
			}
		}
	}
	r.AddStates(n)
	r.AddTransitions(n)
	r.Tag(group)
}

func explore(r *vlib.Run, spec hashSpec, names []string, maxDepth int, group string) {
	k := len(names)
	var alphabet []op
	for n := 0; n <= k; n++ {
		for v := range spec.values {
			alphabet = append(alphabet, op{0, n, v})
		}
	}
	for n := 0; n <= k; n++ {
		alphabet = append(alphabet, op{1, n, 0})
	}
	alphabet = append(alphabet, op{2, 0, 0})
	for n := 0; n < k; n++ {
		alphabet = append(alphabet, op{3, n, 0})
	}
	seen := map[string]struct{}{}
	e0 := newExec(spec, names)
	seen[dump(e0.t, e0.held)+"#"+vlib.DeepDump(e0.m.ch)+"#h="+vlib.DeepDumpValue(reflect.ValueOf(e0.t).Elem().FieldByName("h"))] = struct{}{}
	frontier := [][]op{{}}
	states, transitions := 1, 0
	for depth := 0; depth < maxDepth && len(frontier) > 0; depth++ {
		var next [][]op
		for _, h := range frontier {
			if r.RecheckDone() {
				return
			}
			if r.Expired("C15 " + group) {
				r.AddStates(states)
				r.AddTransitions(transitions)
				return
			}
			for _, o := range alphabet {
				// skip no-op mutations (nothing held) to keep the alphabet honest
				e := newExec(spec, names)
				bad := ""
				for _, p := range h {
					if d := e.step(p); d != "" {
						bad = "prefix diverged: " + d
						break
					}
				}
				if bad != "" {
					// the prefix was accepted when first explored; a divergence now is nondeterminism
					r.Harness("replayed prefix diverged: " + histString(h) + ": " + bad)
				}
				var d string
				if p := vlib.Guard(func() { d = e.step(o) }); p != "" {
					d = "panic: " + p
				}
				transitions++
				nh := append(append([]op{}, h...), o)
				if d != "" {
					r.FailIn(group, group+"/"+classify(d, nh), histString(nh), d, map[string]any{"hash": spec.name, "names": names, "history": histString(nh)})
					continue // do not explore beyond a violating transition
				}
				// product state: real private state + caller-held slices + model state
				// (the hasher the transcript drives is part of the state: a refused or completed ComputeChallenge
				// that leaves something behind in it reaches a different state, whose futures are explored)
				key := dump(e.t, e.held) + "#" + vlib.DeepDump(e.m.ch) + "#h=" + vlib.DeepDumpValue(reflect.ValueOf(e.t).Elem().FieldByName("h"))
				if _, ok := seen[key]; !ok {
					seen[key] = struct{}{}
					states++
					next = append(next, nh)
					if states%97 == 1 {
						r.Sample(map[string]any{"hash": spec.name, "names": k, "history": histString(nh)})
					}
				}
			}
		}
		frontier = next
	}
	if len(frontier) > 0 {
		r.Set("depth_bound_"+group, maxDepth)
	}
	for s := range seen {
		_ = s
	}
	for i := 0; i < states; i++ {
		r.Tag(fmt.Sprintf("%s#%d", group, i))
	}
	r.AddStates(states)
	r.AddTransitions(transitions)
	r.AddTraces(transitions)
	r.Add(transitions)
}
