// C20 — polynomial objects denote one polynomial under every change of representation
// (engine H: explicit-state BFS over conversion histories) + derived constructions (engine L).
package main

import (
	"verifh/vlib"
)

type curveEntryRunC20 struct {
	name string
	run  func(r *vlib.Run, g string)
}

func main() {
	r := vlib.Start("C20", "model_checking")
	r.Rule("per scalar field with an iop package (7): BFS to depth 4 over {ToCanonical, ToLagrange, ToLagrangeCoset (domain n or 4n, task counts), ToRegular, ToBitReverse, Clone (+scribble on the original), ShallowClone, WriteTo->ReadFrom (5-byte reader), Shift(s) for s in {0,1,2,5,6,7,n-1,n,n+1,-1,-2,-n}} on the real iop.Polynomial for sizes 1,2,4,8,16; state = exact (form, shift, size, coefficient vector); invariant in every state: Evaluate(x) = P(omega^s x) for x in {0,1,omega_4n,omega_n^-s,coset*omega,generic x2} and every stored entry of a Lagrange form equals the (shifted) evaluation, by Horner on the polynomial denoted at creation; derived: polynomial.Add/Sub/Eval, InterpolateOnRange (n up to 255), MultiLin Evaluate/Fold/Eq/EvalEq on all {0,1,generic}^k patterns k<=4, iop.Evaluate over mixed layouts and shifts, DivideByXMinusOne; non-trivial = distinct states")
	r.Assume("a conversion with a domain smaller than the coefficient vector is outside the contract and not explored")
	var names []string
	bodies := map[string]func(){}
	for _, c := range curvesRunC20 {
		c := c
		names = append(names, c.name)
		bodies[c.name] = func() { c.run(r, c.name) }
	}
	names = append(names, "race")
	bodies["race"] = func() { r.RunRacePass("C20") }
	r.Parallel(names, func(g string) { bodies[g]() })
	r.Finish()
}
