// Package vatomic mirrors the subset of sync/atomic used by gnark-crypto with a
// scheduling point before every operation.
package vatomic

import (
	"sync/atomic"

	vs "github.com/consensys/gnark-crypto/verifsched"
)

func AddUint64(p *uint64, d uint64) uint64 {
	vs.Point(vs.KAtomic, p, nil)
	v := atomic.AddUint64(p, d)
	vs.Observe(v)
	return v
}
func LoadUint64(p *uint64) uint64 {
	vs.Point(vs.KAtomic, p, nil)
	v := atomic.LoadUint64(p)
	vs.Observe(v)
	return v
}
func StoreUint64(p *uint64, v uint64) { vs.Point(vs.KAtomic, p, nil); atomic.StoreUint64(p, v) }
func AddInt64(p *int64, d int64) int64 {
	vs.Point(vs.KAtomic, p, nil)
	v := atomic.AddInt64(p, d)
	vs.Observe(uint64(v))
	return v
}
func AddUint32(p *uint32, d uint32) uint32 {
	vs.Point(vs.KAtomic, p, nil)
	v := atomic.AddUint32(p, d)
	vs.Observe(uint64(v))
	return v
}
func AddInt32(p *int32, d int32) int32 {
	vs.Point(vs.KAtomic, p, nil)
	v := atomic.AddInt32(p, d)
	vs.Observe(uint64(v))
	return v
}
func LoadInt64(p *int64) int64   { vs.Point(vs.KAtomic, p, nil); return atomic.LoadInt64(p) }
func LoadUint32(p *uint32) uint32 { vs.Point(vs.KAtomic, p, nil); return atomic.LoadUint32(p) }
func CompareAndSwapUint64(p *uint64, o, n uint64) bool {
	vs.Point(vs.KAtomic, p, nil)
	ok := atomic.CompareAndSwapUint64(p, o, n)
	if ok {
		vs.Observe(1)
	} else {
		vs.Observe(0)
	}
	return ok
}
