// Package vpar re-exports internal/parallel to the drivers (virtual package, added by overlay).
package vpar

import "github.com/consensys/gnark-crypto/internal/parallel"

func Execute(nbIterations int, work func(int, int), maxCpus ...int) {
	parallel.Execute(nbIterations, work, maxCpus...)
}
