// Package verifsched is the controlled scheduler of engine S. It is mapped into the
// gnark-crypto module by build overlay (github.com/consensys/gnark-crypto/verifsched) so
// that instrumented copies of library files and the drivers share one instance.
//
// While no execution is active every shim is a pass-through to the real operation. During
// an execution exactly one managed goroutine runs; every shim operation is a scheduling
// point at which the scheduler (driven by a choice list) decides who runs next. The real
// operation is performed only when it cannot block.
package verifsched

import (
	"fmt"
	"os"
	"hash/fnv"
	"reflect"
	"runtime"
	"sort"
	"strconv"
	"strings"
	"sync"
	"sync/atomic"
)

type Kind uint8

const (
	KStart Kind = iota
	KSend
	KRecv
	KClose
	KLock
	KRLock
	KWait
	KOnce
	KAtomic
	KPool
	KMap
	KEnd
)

var kindName = []string{"start", "send", "recv", "close", "lock", "rlock", "wait", "once", "atomic", "pool", "map", "end"}

type thread struct {
	id      int
	gid     uint64
	resume  chan bool // true: go on; false: abort (unwind)
	kind    Kind
	obj     int
	enabled func() bool
	done    bool
	started bool
	hist    uint64 // hash of everything this thread observed: determines its local state
	nops    int
}

type chanShadow struct {
	closed bool
	tags   []uint64 // identity of queued messages (sender history hash at send time)
}

// ChoiceRec describes one point at which more than one continuation existed.
type ChoiceRec struct {
	N         int  // number of options
	Chosen    int  // option taken
	RunningOK bool // the running thread was among the enabled ones (an alternative is a pre-emption)
	Env       bool // environment choice (sync.Pool reuse), not a thread switch
	Cost      int  // deviation cost accumulated before this point
}

type abortSentinel struct{}

// Exec is one controlled execution.
type Exec struct {
	threads  []*thread
	cur      *thread
	prefix   []int
	Rec      []ChoiceRec
	Trace    []string
	keepTr   bool
	objs     map[uintptr]int
	objKeep  []any // keeps registered objects alive so that addresses are not reused within an execution
	chans    map[int]*chanShadow
	extra    map[int]func() string // abstract state of sync objects, by object id
	Deadlock bool
	Panic    string
	aborting bool
	Pruned   bool
	finished chan struct{}
	cost     int
	costAll  bool
	bound    int
	visit    func(key string, remaining int) bool // false => prune
	AliveAtReturn int
	numCPU   int
	points   int
	exitWG   sync.WaitGroup
	atEnd    []func()
	owner    atomic.Int64 // id+1 of the thread holding the baton; tripwire for the single-runner invariant
	logmu    sync.Mutex
	elog     []string
	seq      uint64
}

var prevExec *Exec

func (e *Exec) logf(f string, a ...any) {
	e.logmu.Lock()
	e.elog = append(e.elog, fmt.Sprintf("g%d ", goid())+fmt.Sprintf(f, a...))
	if len(e.elog) > 400 {
		e.elog = e.elog[200:]
	}
	e.logmu.Unlock()
}

var cur *Exec // the active execution; nil = pass-through

var epoch uint64

// Epoch identifies the current execution (shims reset per-execution shadow state with it).
func Epoch() uint64 { return epoch }

// Active reports whether a controlled execution is running.
func Active() bool { return cur != nil && !cur.aborting }

func goid() uint64 {
	var buf [64]byte
	n := runtime.Stack(buf[:], false)
	s := strings.TrimPrefix(string(buf[:n]), "goroutine ")
	s = s[:strings.IndexByte(s, ' ')]
	v, _ := strconv.ParseUint(s, 10, 64)
	return v
}

func (e *Exec) objID(p uintptr, keep any) int {
	if id, ok := e.objs[p]; ok {
		return id
	}
	id := len(e.objs) + 1
	e.objs[p] = id
	e.objKeep = append(e.objKeep, keep)
	return id
}

func mix(h uint64, vals ...uint64) uint64 {
	for _, v := range vals {
		h ^= v + 0x9e3779b97f4a7c15 + (h << 6) + (h >> 2)
		h *= 0x100000001b3
	}
	return h
}

func hashStr(s string) uint64 {
	f := fnv.New64a()
	f.Write([]byte(s))
	return f.Sum64()
}

// point is called by the running managed goroutine before a synchronisation operation.
// It returns when this goroutine has been chosen and the operation is enabled.
func (e *Exec) fatal(msg string) {
	buf := make([]byte, 1<<17)
	n := runtime.Stack(buf, true)
	fmt.Fprintf(os.Stderr, "verifsched internal: %s\n%s\n", msg, buf[:n])
	fmt.Fprintf(os.Stderr, "---- event log of current exec (epoch %d)\n%s\n", e.seq, strings.Join(e.elog, "\n"))
	if prevExec != nil {
		fmt.Fprintf(os.Stderr, "---- event log of previous exec (epoch %d)\n%s\n", prevExec.seq, strings.Join(prevExec.elog, "\n"))
	}
	os.Exit(3)
}

func (e *Exec) point(k Kind, obj int, enabled func() bool) {
	t := e.cur
	if o := e.owner.Load(); o != int64(t.id)+1 {
		e.fatal(fmt.Sprintf("point(): owner=%d but cur=%d aborting=%v", o-1, t.id, e.aborting))
	}
	if g := goid(); g != t.gid {
		panic(fmt.Sprintf("verifsched: scheduling point reached from goroutine %d which is not the running managed goroutine (thread %d, goroutine %d): an uninstrumented goroutine is calling instrumented code", g, t.id, t.gid))
	}
	t.kind, t.obj, t.enabled = k, obj, enabled
	e.points++
	e.schedule(t)
	// chosen: the operation is enabled now
	t.nops++
	t.hist = mix(t.hist, uint64(k), uint64(obj))
	if e.keepTr {
		e.Trace = append(e.Trace, fmt.Sprintf("t%d:%s#%d", t.id, kindName[k], obj))
	}
}

// observe folds a value the running thread obtained from shared state into its history.
func (e *Exec) observe(v uint64) { e.cur.hist = mix(e.cur.hist, v) }

func (e *Exec) enabledList(caller *thread) []*thread {
	var l []*thread
	if caller != nil && !caller.done && caller.enabled() {
		l = append(l, caller)
	}
	for _, t := range e.threads {
		if t == caller || t.done {
			continue
		}
		if t.enabled() {
			l = append(l, t)
		}
	}
	return l
}

func (e *Exec) stateKey(caller *thread) string {
	var sb strings.Builder
	if caller != nil && !caller.done {
		fmt.Fprintf(&sb, "cur=%d;", caller.id)
	} else {
		sb.WriteString("cur=-;")
	}
	for _, t := range e.threads {
		if t.done {
			fmt.Fprintf(&sb, "%d:D%x|", t.id, t.hist)
		} else {
			fmt.Fprintf(&sb, "%d:%x@%d.%d|", t.id, t.hist, t.kind, t.obj)
		}
	}
	ids := make([]int, 0, len(e.chans))
	for id := range e.chans {
		ids = append(ids, id)
	}
	sort.Ints(ids)
	for _, id := range ids {
		c := e.chans[id]
		if len(c.tags) == 0 && !c.closed {
			continue
		}
		fmt.Fprintf(&sb, "c%d:%v%x|", id, c.closed, c.tags)
	}
	ids = ids[:0]
	for id := range e.extra {
		ids = append(ids, id)
	}
	sort.Ints(ids)
	for _, id := range ids {
		fmt.Fprintf(&sb, "o%d:%s|", id, e.extra[id]())
	}
	return sb.String()
}

// choose consumes the choice list.
func (e *Exec) choose(n int, runningOK, env bool) int {
	idx := len(e.Rec)
	c := 0
	if idx < len(e.prefix) {
		c = e.prefix[idx]
		if c >= n {
			panic(fmt.Sprintf("verifsched: replayed prefix diverged: choice %d of %d options at point %d", c, n, idx))
		}
	}
	e.Rec = append(e.Rec, ChoiceRec{N: n, Chosen: c, RunningOK: runningOK, Env: env, Cost: e.cost})
	if c != 0 && (runningOK || e.costAll || env) {
		e.cost++
	}
	return c
}

func (e *Exec) abortAll(except *thread) {
	e.aborting = true
	for _, t := range e.threads {
		if t != except && !t.done {
			t.done = true
			t.resume <- false
		}
	}
}

// schedule hands the baton to the next thread. caller is the thread giving it up (parked at
// a point, or finished).
func (e *Exec) schedule(caller *thread) {
	en := e.enabledList(caller)
	if len(en) == 0 {
		alive := 0
		for _, t := range e.threads {
			if !t.done {
				alive++
			}
		}
		if alive > 0 {
			e.Deadlock = true
			var sb strings.Builder
			for _, t := range e.threads {
				if !t.done {
					fmt.Fprintf(&sb, "t%d blocked at %s#%d; ", t.id, kindName[t.kind], t.obj)
				}
			}
			e.Trace = append(e.Trace, "DEADLOCK: "+sb.String())
			e.abortAll(caller)
		}
		close(e.finished)
		if caller != nil && !caller.done {
			caller.done = true
			panic(abortSentinel{})
		}
		return
	}
	chosen := en[0]
	if len(en) > 1 {
		runningOK := caller != nil && !caller.done && en[0] == caller
		// state-key pruning applies only past the replayed prefix
		if e.visit != nil && len(e.Rec) >= len(e.prefix) {
			if !e.visit(e.stateKey(caller), e.bound-e.cost) {
				e.Pruned = true
				e.abortAll(caller)
				close(e.finished)
				if caller != nil && !caller.done {
					caller.done = true
					panic(abortSentinel{})
				}
				return
			}
		}
		chosen = en[e.choose(len(en), runningOK, false)]
	}
	if chosen == caller {
		return
	}
	if !chosen.enabled() || chosen.done {
		panic(fmt.Sprintf("verifsched internal: chosen thread %d not enabled/done=%v", chosen.id, chosen.done))
	}
	e.cur = chosen
	chosen.started = true
	if !e.owner.CompareAndSwap(int64(caller.id)+1, int64(chosen.id)+1) {
		e.fatal(fmt.Sprintf("schedule(): caller %d hands over but owner=%d", caller.id, e.owner.Load()-1))
	}
	// everything the caller needs must be read BEFORE the baton is handed over: once the
	// chosen thread runs, shared state (including caller.done, set by abortAll) belongs to it
	park := caller != nil && !caller.done
	chosen.resume <- true
	if park {
		ok := <-caller.resume
		if !ok {
			panic(abortSentinel{})
		}
		if o := e.owner.Load(); o != int64(caller.id)+1 {
			e.fatal(fmt.Sprintf("schedule(): thread %d resumed but owner=%d", caller.id, o-1))
		}
	}
}

func (e *Exec) newThread(f func()) *thread {
	t := &thread{id: len(e.threads), resume: make(chan bool, 1), kind: KStart, enabled: func() bool { return true }}
	t.hist = mix(0x1234567, uint64(t.id))
	if e.cur != nil {
		// the child's identity depends on where its parent was when it spawned it
		t.hist = mix(t.hist, e.cur.hist, uint64(e.cur.nops))
	}
	e.threads = append(e.threads, t)
	e.exitWG.Add(1)
	go func() {
		defer e.exitWG.Done()
		if ok := <-t.resume; !ok {
			return
		}
		t.gid = goid()
		defer func() {
			if r := recover(); r != nil {
				if _, ok := r.(abortSentinel); ok {
					return // unwound by the scheduler; it has already moved on
				}
				if e.Panic == "" {
					e.Panic = fmt.Sprintf("t%d: %v", t.id, r)
				}
				e.Trace = append(e.Trace, "PANIC: "+e.Panic)
			}
			if e.aborting {
				return
			}
			t.done = true
			if t.id == 0 {
				for _, o := range e.threads {
					if !o.done {
						e.AliveAtReturn++
					}
				}
			}
			e.schedule(t)
		}()
		if e.keepTr {
			e.Trace = append(e.Trace, fmt.Sprintf("t%d:start", t.id))
		}
		f()
	}()
	return t
}

// Result of one controlled execution.
type Result struct {
	Rec           []ChoiceRec
	Trace         []string
	Deadlock      bool
	Panic         string
	Pruned        bool
	AliveAtReturn int
	Threads       int
	Points        int
}

// Options of one execution.
type Options struct {
	Prefix    []int
	Bound     int
	CostAll   bool
	NumCPU    int
	KeepTrace bool
	Visit     func(key string, remaining int) bool
}

// RunOne executes body as thread 0 under the scheduler and returns when every managed
// goroutine has finished (or the execution was pruned / deadlocked).
func RunOne(o Options, body func()) Result {
	if cur != nil {
		panic("verifsched: nested execution")
	}
	e := &Exec{prefix: o.Prefix, objs: map[uintptr]int{}, chans: map[int]*chanShadow{}, extra: map[int]func() string{},
		finished: make(chan struct{}), bound: o.Bound, costAll: o.CostAll, visit: o.Visit, keepTr: o.KeepTrace, numCPU: o.NumCPU}
	if e.numCPU == 0 {
		e.numCPU = 4
	}
	epoch++
	e.seq = epoch
	cur = e
	t0 := e.newThread(body)
	e.cur = t0
	t0.started = true
	e.owner.Store(1)
	t0.resume <- true
	<-e.finished
	e.exitWG.Wait() // every managed goroutine has fully unwound before the next execution starts
	for _, f := range e.atEnd {
		f()
	}
	prevExec = e
	cur = nil
	return Result{Rec: e.Rec, Trace: e.Trace, Deadlock: e.Deadlock, Panic: e.Panic, Pruned: e.Pruned, AliveAtReturn: e.AliveAtReturn, Threads: len(e.threads), Points: e.points}
}

// ---------------------------------------------------------------------------------
// shims used by instrumented code
// ---------------------------------------------------------------------------------

// NumCPU replaces runtime.NumCPU() in instrumented files.
func NumCPU() int {
	if e := cur; e != nil {
		return e.numCPU
	}
	if passNumCPU > 0 {
		return passNumCPU
	}
	return runtime.NumCPU()
}

var passNumCPU int

// SetPassThroughNumCPU fixes the value NumCPU() reports outside executions (0 = real).
func SetPassThroughNumCPU(n int) { passNumCPU = n }

// Go replaces a `go` statement (the instrumenter wraps the call in a closure after
// evaluating function value and arguments, as the go statement does).
func Go(f func()) {
	e := cur
	if e != nil && e.aborting {
		e.fatal("Go() called while aborting")
	}
	if e == nil {
		go f()
		return
	}
	e.newThread(f)
}

func chanPtr(ch any) uintptr { return reflect.ValueOf(ch).Pointer() }

func (e *Exec) shadow(ch any) (int, *chanShadow) {
	id := e.objID(chanPtr(ch), ch)
	s, ok := e.chans[id]
	if !ok {
		s = &chanShadow{}
		e.chans[id] = s
	}
	return id, s
}

func Send[T any](ch chan<- T, v T) {
	e := cur
	if e == nil || e.aborting {
		if e != nil {
			return
		}
		ch <- v
		return
	}
	if cap(ch) == 0 {
		panic("verifsched: unbuffered channel send is not modelled")
	}
	id, s := e.shadow(ch)
	e.point(KSend, id, func() bool { return s.closed || len(ch) < cap(ch) })
	s.tags = append(s.tags, mix(e.cur.hist, uint64(e.cur.nops)))
	if s.closed {
		s.tags = s.tags[:len(s.tags)-1]
	}
	ch <- v // panics if closed, as the real program would
}

func Recv[T any](ch <-chan T) T {
	v, _ := Recv2(ch)
	return v
}

func Recv2[T any](ch <-chan T) (T, bool) {
	e := cur
	if e == nil || e.aborting {
		if e != nil {
			var z T
			return z, false
		}
		v, ok := <-ch
		return v, ok
	}
	if ch == nil {
		e.point(KRecv, 0, func() bool { return false }) // a receive from a nil channel blocks forever
	}
	if cap(ch) == 0 {
		panic("verifsched: unbuffered channel receive is not modelled")
	}
	id, s := e.shadow(ch)
	e.point(KRecv, id, func() bool { return s.closed || len(ch) > 0 })
	if len(s.tags) > 0 {
		e.observe(s.tags[0])
		s.tags = s.tags[1:]
	} else {
		e.observe(0xc105ed)
	}
	if !(s.closed || len(ch) > 0) {
		t := e.cur
		panic(fmt.Sprintf("verifsched internal: receive would block: thread %d done=%v started=%v aborting=%v cur==e:%v pruned=%v deadlock=%v gid=%d goid=%d kind=%d obj=%d id=%d", t.id, t.done, t.started, e.aborting, cur == e, e.Pruned, e.Deadlock, t.gid, goid(), t.kind, t.obj, id))
	}
	v, ok := <-ch
	return v, ok
}

func Close[T any](ch chan T) {
	e := cur
	if e == nil || e.aborting {
		if e != nil {
			return
		}
		close(ch)
		return
	}
	id, s := e.shadow(ch)
	e.point(KClose, id, func() bool { return true })
	if s.closed {
		close(ch) // close of closed channel: real panic
	}
	s.closed = true
	close(ch)
}

// Point is a generic scheduling point for the vsync / vatomic shims.
func Point(k Kind, obj any, enabled func() bool) {
	e := cur
	if e == nil || e.aborting {
		return
	}
	id := 0
	if obj != nil {
		id = e.objID(reflect.ValueOf(obj).Pointer(), obj)
	}
	if enabled == nil {
		enabled = func() bool { return true }
	}
	e.point(k, id, enabled)
}

// Observe folds a value read from shared synchronisation state into the running thread's history.
func Observe(v uint64) {
	if e := cur; e != nil && !e.aborting {
		e.observe(v)
	}
}

// RegisterState attaches the abstract state of a sync object to the state key.
func RegisterState(obj any, f func() string) {
	if e := cur; e != nil && !e.aborting {
		e.extra[e.objID(reflect.ValueOf(obj).Pointer(), obj)] = f
	}
}

// Choose is an environment choice point with n options (option 0 is the default).
func Choose(n int) int {
	e := cur
	if e == nil || e.aborting || n <= 1 {
		return 0
	}
	c := e.choose(n, false, true)
	e.observe(uint64(c) + 0xe17)
	return c
}

// AtEnd registers a function run when the current execution is over (shim bookkeeping).
func AtEnd(f func()) {
	if e := cur; e != nil {
		e.atEnd = append(e.atEnd, f)
	}
}

// Aborting reports whether the current execution is being unwound (shims become no-ops).
func Aborting() bool { return cur != nil && cur.aborting }
