// Package vsync mirrors the subset of package sync used by gnark-crypto. Outside a
// controlled execution every type delegates to the real sync primitive.
package vsync

import (
	"fmt"
	"sync"

	vs "github.com/consensys/gnark-crypto/verifsched"
)

type Locker = sync.Locker

// ---------------- WaitGroup ----------------
type WaitGroup struct {
	real sync.WaitGroup
	n    int
	reg  uint64
}

func (w *WaitGroup) Add(d int) {
	if !vs.Active() {
		if vs.Aborting() {
			return
		}
		w.real.Add(d)
		return
	}
	if w.reg != vs.Epoch() {
		w.reg = vs.Epoch()
		w.n = 0
		vs.RegisterState(w, func() string { return fmt.Sprint(w.n) })
	}
	w.n += d
	if w.n < 0 {
		panic("sync: negative WaitGroup counter")
	}
}
func (w *WaitGroup) Done() { w.Add(-1) }
func (w *WaitGroup) Wait() {
	if !vs.Active() {
		if vs.Aborting() {
			return
		}
		w.real.Wait()
		return
	}
	vs.Point(vs.KWait, w, func() bool { return w.n == 0 })
}

// ---------------- Mutex ----------------
type Mutex struct {
	real    sync.Mutex
	locked  bool
	version uint64
	reg     uint64
}

func (m *Mutex) Lock() {
	if !vs.Active() {
		if vs.Aborting() {
			return
		}
		m.real.Lock()
		return
	}
	m.register()
	vs.Point(vs.KLock, m, func() bool { return !m.locked })
	m.locked = true
	m.version++
	vs.Observe(m.version)
}
func (m *Mutex) register() {
	if m.reg != vs.Epoch() {
		m.reg = vs.Epoch()
		m.locked, m.version = false, 0
		vs.RegisterState(m, func() string { return fmt.Sprint(m.locked, m.version) })
	}
}

func (m *Mutex) Unlock() {
	if !vs.Active() {
		if vs.Aborting() {
			return
		}
		m.real.Unlock()
		return
	}
	if !m.locked {
		panic("sync: unlock of unlocked mutex")
	}
	m.locked = false
}
func (m *Mutex) TryLock() bool {
	if !vs.Active() {
		return m.real.TryLock()
	}
	m.register()
	vs.Point(vs.KLock, m, nil)
	if m.locked {
		vs.Observe(0)
		return false
	}
	m.locked = true
	m.version++
	vs.Observe(m.version)
	return true
}

// ---------------- RWMutex (readers/writer) ----------------
type RWMutex struct {
	real    sync.RWMutex
	readers int
	writer  bool
	version uint64
	reg     uint64
}

func (m *RWMutex) register() {
	if m.reg != vs.Epoch() {
		m.reg = vs.Epoch()
		m.readers, m.writer, m.version = 0, false, 0
		vs.RegisterState(m, func() string { return fmt.Sprint(m.readers, m.writer, m.version) })
	}
}
func (m *RWMutex) Lock() {
	if !vs.Active() {
		if vs.Aborting() {
			return
		}
		m.real.Lock()
		return
	}
	m.register()
	vs.Point(vs.KLock, m, func() bool { return !m.writer && m.readers == 0 })
	m.writer = true
	m.version++
	vs.Observe(m.version)
}
func (m *RWMutex) Unlock() {
	if !vs.Active() {
		if vs.Aborting() {
			return
		}
		m.real.Unlock()
		return
	}
	m.writer = false
}
func (m *RWMutex) RLock() {
	if !vs.Active() {
		if vs.Aborting() {
			return
		}
		m.real.RLock()
		return
	}
	m.register()
	vs.Point(vs.KRLock, m, func() bool { return !m.writer })
	m.readers++
	vs.Observe(m.version)
}
func (m *RWMutex) RUnlock() {
	if !vs.Active() {
		if vs.Aborting() {
			return
		}
		m.real.RUnlock()
		return
	}
	m.readers--
}

// ---------------- Once ----------------
// A Once is process-global state in the library (lazy tables). Under the scheduler its
// "done" flag is per execution epoch so that every execution starts from the lazy state
// the driver chose (see ResetOnces).
type Once struct {
	mu      sync.Mutex
	done    bool
	running bool
	epoch   int
	reg     uint64
}

var onceEpoch int

// ResetOnces makes every vsync.Once (and OnceValue) not-yet-done for the next execution.
func ResetOnces() { onceEpoch++ }

func (o *Once) Do(f func()) {
	if !vs.Active() {
		if vs.Aborting() {
			return
		}
		// pass-through still honours epochs so that a driver can pre-initialise or reset
		o.mu.Lock()
		defer o.mu.Unlock()
		if o.epoch != onceEpoch {
			o.epoch, o.done = onceEpoch, false
		}
		if !o.done {
			f()
			o.done = true
		}
		return
	}
	if o.epoch != onceEpoch {
		o.epoch, o.done, o.running = onceEpoch, false, false
	}
	if o.reg != vs.Epoch() {
		o.reg = vs.Epoch()
		o.running = false
		vs.RegisterState(o, func() string { return fmt.Sprint(o.done, o.running) })
	}
	vs.Point(vs.KOnce, o, func() bool { return !o.running })
	if o.done {
		vs.Observe(1)
		return
	}
	vs.Observe(2)
	o.running = true
	defer func() { o.running = false; o.done = true }()
	f()
}

func OnceFunc(f func()) func() {
	var o Once
	return func() { o.Do(f) }
}

func OnceValue[T any](f func() T) func() T {
	var o Once
	var v T
	return func() T {
		o.Do(func() { v = f() })
		return v
	}
}

func OnceValues[T1, T2 any](f func() (T1, T2)) func() (T1, T2) {
	var o Once
	var v1 T1
	var v2 T2
	return func() (T1, T2) {
		o.Do(func() { v1, v2 = f() })
		return v1, v2
	}
}

// ---------------- Pool ----------------
// Get is an environment choice point: a pooled object (most recent first) or a fresh one.
type Pool struct {
	New   func() any
	real  sync.Pool
	items []any
	reg   uint64
}

func (p *Pool) Get() any {
	if !vs.Active() {
		if vs.Aborting() {
			if p.New != nil {
				return p.New()
			}
			return nil
		}
		if x := p.real.Get(); x != nil {
			return x
		}
		if p.New != nil {
			return p.New()
		}
		return nil
	}
	p.register()
	vs.Point(vs.KPool, p, nil)
	if n := len(p.items); n > 0 {
		if vs.Choose(2) == 0 {
			x := p.items[n-1]
			p.items = p.items[:n-1]
			return x
		}
	}
	if p.New != nil {
		return p.New()
	}
	return nil
}

func (p *Pool) register() {
	if p.reg != vs.Epoch() {
		p.reg = vs.Epoch()
		p.items = nil // objects pooled by an earlier execution never leak into this one
		vs.RegisterState(p, func() string { return fmt.Sprint(len(p.items)) })
	}
}

func (p *Pool) Put(x any) {
	if vs.Aborting() {
		return
	}
	if !vs.Active() {
		p.real.Put(x)
		return
	}
	p.register()
	p.items = append(p.items, x)
}

// Drain empties the pool (drivers call it between executions).
func (p *Pool) Drain() { p.items = nil }

// ---------------- Map ----------------
type Map struct {
	real sync.Map
}

func (m *Map) Load(k any) (any, bool) {
	vs.Point(vs.KMap, m, nil)
	v, ok := m.real.Load(k)
	if ok {
		vs.Observe(1)
	} else {
		vs.Observe(0)
	}
	return v, ok
}
func (m *Map) Store(k, v any) { vs.Point(vs.KMap, m, nil); m.real.Store(k, v) }
func (m *Map) LoadOrStore(k, v any) (any, bool) {
	vs.Point(vs.KMap, m, nil)
	a, loaded := m.real.LoadOrStore(k, v)
	if loaded {
		vs.Observe(1)
	} else {
		vs.Observe(0)
	}
	return a, loaded
}
func (m *Map) Delete(k any)                     { vs.Point(vs.KMap, m, nil); m.real.Delete(k) }
func (m *Map) Range(f func(k, v any) bool)      { vs.Point(vs.KMap, m, nil); m.real.Range(f) }
func (m *Map) Clear()                           { m.real.Clear() }
func (m *Map) LoadAndDelete(k any) (any, bool)  { vs.Point(vs.KMap, m, nil); return m.real.LoadAndDelete(k) }
