#!/usr/bin/env python3
"""Regenerates /verif/.work/overlay.json (verif-tagged files added to /repo packages via
go build -overlay; /repo itself is never edited) and per-curve generated driver sources."""
import json, os, sys
ROOT = "/verif"
WORK = ROOT + "/.work"
os.makedirs(WORK, exist_ok=True)
replace = {}
ovdir = ROOT + "/overlay"   # mirrors /repo paths: overlay/<path relative to /repo>
if os.path.isdir(ovdir):
    for dp, dn, fn in os.walk(ovdir):
        for f in fn:
            src = os.path.join(dp, f)
            rel = os.path.relpath(src, ovdir)
            replace["/repo/" + rel] = src
json.dump({"Replace": replace}, open(WORK + "/overlay.json", "w"), indent=1)
