#!/bin/bash
# Rewrites every non-test library file that contains a concurrency primitive (engine S)
# from the CURRENT tree and writes /verif/.work/overlay_s.json = base overlay + rewritten copies.
cd /verif
export GOFLAGS=-mod=mod GOPROXY=off GOSUMDB=off GOTOOLCHAIN=local GOCACHE=/verif/.cache/go-build CGO_ENABLED=0
(cd harness && go build -o /verif/.work/bin/vinstr ./vinstr) || { echo "HARNESS-ERROR vinstr build failed"; exit 2; }
dirs=$(cd /repo && find accumulator ecc field/babybear field/goldilocks field/koalabear field/pool field/hash fiat-shamir hash internal/parallel kzg signature utils -type d \
   ! -path '*/generator*' ! -path '*/internal/generator*' ! -path '*/asm*' ! -path '*/testdata*' | sort)
rm -rf .work/instr.new
.work/bin/vinstr /verif/.work/instr /verif/.work/overlay.json /verif/.work/overlay_s.json $dirs > .work/instr.log 2> .work/instr.err || { cat .work/instr.err | head -20; echo "HARNESS-ERROR instrumenter failed"; exit 2; }
