#!/usr/bin/env python3
"""Writes seeded/<id>/meta.json from notes.md + verify.log for every seeded defect directory."""
import json, os, re, glob
for d in sorted(glob.glob('/verif/seeded/*/')):
    name = os.path.basename(d.rstrip('/'))
    prop = name.split('_')[0]
    log = open(d + 'verify.log').read() if os.path.exists(d + 'verify.log') else ''
    notes = open(d + 'notes.md').read() if os.path.exists(d + 'notes.md') else ''
    patch = open(d + 'patch.diff').read() if os.path.exists(d + 'patch.diff') else ''
    files = re.findall(r'^\+\+\+ b/(.*)$', patch, re.M)
    caught = sorted(set(re.findall(r'VIOLATION property=(C\d+) .*? key=(\S+)', log)))
    checks_run = re.findall(r'== ./check (C\d+) quick', log)
    tests_ok = 'FAIL' not in log.split('== demo WITH')[0]
    demo_with = log.split('== demo WITH')[1].split('== demo WITHOUT')[0] if '== demo WITH' in log else ''
    demo_without = log.split('== demo WITHOUT')[1].split('== ./check')[0] if '== demo WITHOUT' in log else ''
    meta = {
        "property": prop,
        "files_changed": files,
        "needs_to_manifest": (re.search(r'(?is)(trigger|needs?|manifest)[^\n]*\n(.{0,600})', notes).group(0)[:700] if re.search(r'(?i)trigger|needs|manifest', notes) else ""),
        "confirmed": {
            "touched_package_tests_pass_with_change": tests_ok,
            "demo_fails_with_change": ('FAIL' in demo_with),
            "demo_passes_without_change": ('ok ' in demo_without and 'FAIL' not in demo_without),
            "how": "lib/seed_verify.sh: scratch worktree of /repo HEAD under /tmp, git apply patch.diff, go build ./..., go test of the touched packages, demo with / without the change, then ./check <ID> quick with the patch applied to /repo (reverted afterwards)",
        },
        "checks_run": checks_run,
        "caught_by": [{"check": c, "key": k} for c, k in caught],
        "caught": bool(caught),
    }
    json.dump(meta, open(d + 'meta.json', 'w'), indent=1)
    print(name, "caught" if caught else "MISSED", [c for c, _ in caught][:1], tests_ok, meta["confirmed"]["demo_fails_with_change"], meta["confirmed"]["demo_passes_without_change"])
