#!/bin/bash
# lib/seed_verify.sh <PROP> <N> [check ids...]: independently confirm a seeded defect delivered in /tmp/seed_<PROP>_<N>
# (patch.diff + demo files + notes.md): builds, touched packages' tests pass, demo fails with / passes without;
# then runs the given checks (default: PROP) against it in /repo and records everything under /verif/seeded/<PROP>_<N>/.
set -u
P=$1; N=$2; shift 2; CHECKS=${*:-$P}
SRC=/tmp/seed_${P}_${N}; OUT=/verif/seeded/${P}_${N}; WT=/tmp/vw_${P}_${N}
export GOFLAGS=-mod=mod GOPROXY=off GOSUMDB=off GOTOOLCHAIN=local
[ -f $SRC/patch.diff ] || { echo "no patch"; exit 2; }
mkdir -p $OUT; cp -r $SRC/* $OUT/
# PHASE=wt: only the scratch-worktree part (can run for several seeds in parallel); PHASE=repo: only the /repo part (serial)
PHASE=${PHASE:-all}
if [ "$PHASE" != repo ]; then
git -C /repo worktree add -f $WT HEAD >/dev/null 2>&1 || { echo "worktree failed"; exit 2; }
cd $WT
git apply $SRC/patch.diff || { echo "patch does not apply"; git -C /repo worktree remove --force $WT; exit 2; }
PKGS=$(git diff --name-only | xargs -n1 dirname | sort -u | sed 's|^|./|')
echo "touched packages: $PKGS" | tee $OUT/verify.log
go build ./... 2>&1 | tail -3 | tee -a $OUT/verify.log
echo "== tests with the change" | tee -a $OUT/verify.log
go test -count=1 -timeout 20m $PKGS 2>&1 | tail -8 | tee -a $OUT/verify.log
TESTS_OK=$?
# demo: *_test.go files go into the touched package dir named in notes or first pkg; main programs under zz_demo
DEMODIR=""
for f in $SRC/*_test.go; do [ -f "$f" ] || continue; pk=$(grep -m1 "^package " $f | awk '{print $2}'); 
  for d in $PKGS $(grep -rl --include=*.go -m1 "^package $pk\$" . | xargs -n1 dirname | sort -u | head -20); do
    if ls $d/*.go >/dev/null 2>&1 && grep -q "^package ${pk%_test}\$" $d/*.go 2>/dev/null; then DEMODIR=$d; break; fi; done
  cp $f $DEMODIR/; done
if [ -d $SRC/zz_demo ]; then cp -r $SRC/zz_demo $WT/; DEMOCMD="go run ./zz_demo"; else DEMOCMD="go test -count=1 -run Seed -timeout 20m $DEMODIR"; fi
[ -f $SRC/demo_cmd.txt ] && DEMOCMD=$(cat $SRC/demo_cmd.txt)
echo "== demo WITH the change: $DEMOCMD" | tee -a $OUT/verify.log
( eval "$DEMOCMD" ) 2>&1 | tail -6 | tee -a $OUT/verify.log
git diff --name-only | grep -v "zz_" > /tmp/changed_$$.txt
git checkout -- $(cat /tmp/changed_$$.txt)   # (never git stash: the stash ref is shared with /repo)
echo "== demo WITHOUT the change" | tee -a $OUT/verify.log
( eval "$DEMOCMD" ) 2>&1 | tail -4 | tee -a $OUT/verify.log
cd /; git -C /repo worktree remove --force $WT; git -C /repo worktree prune
fi
[ "$PHASE" = wt ] && { echo "done (worktree phase)"; exit 0; }
# run our checks against it
cd /repo && git diff --quiet || { echo "repo dirty"; exit 2; }
git apply $SRC/patch.diff
for c in $CHECKS; do
  echo "== ./check $c quick with the change applied to /repo" | tee -a $OUT/verify.log
  (cd /verif && ./check $c quick 2>&1 | grep -E "^(VIOLATION|HARNESS|UNREPRO|NOTE|check=)" | cut -c1-400 | head -12) | tee -a $OUT/verify.log
done
git checkout -- .
echo done
