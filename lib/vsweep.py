#!/usr/bin/env python3
# lib/vsweep.py <CHECK> <func-regex> <repo-relative files...>
# For every `if COND {` whose branch starts with a `return` of a non-nil error / false inside a function whose name
# matches the regex, neutralise the condition (lib/vmut.sh: overlay copy, /repo untouched) and run the quick check.
# Prints CAUGHT / SURVIVED per site: survivors are verifier / decoder checks no enumerated input depends on.
import re, sys, subprocess, json
chk, fre, files = sys.argv[1], re.compile(sys.argv[2]), sys.argv[3:]
sites = []
for f in files:
    L = open('/repo/' + f).read().split('\n')
    fn = None
    for i, l in enumerate(L):
        m = re.match(r'^func (\([^)]*\) )?(\w+)\(', l)
        if m:
            fn = m.group(2)
        if l.startswith('}'):
            fn = None
        if fn and fre.search(fn) and re.match(r'^\s*if .*\{\s*$', l) and i + 1 < len(L):
            nxt = L[i + 1].strip()
            if re.match(r'^return\b', nxt) and not re.match(r'^return( nil| true| [a-z]\w*, nil)?\s*$', nxt) and 'err != nil' not in l:
                sites.append((f, i + 1, fn, l.strip()))
print(f'# {len(sites)} sites', flush=True)
for f, line, fn, src in sites:
    out = subprocess.run(['/verif/lib/vmut.sh', chk, f, str(line)], capture_output=True, text=True).stdout
    tag = 'CAUGHT  ' if 'VIOLATION' in out else ('BUILDERR' if 'BUILD-FAILED' in out else 'SURVIVED')
    print(f'{tag} {f}:{line} {fn} :: {src[:110]}', flush=True)
    for o in out.split('\n'):
        if o.startswith('VIOLATION'):
            print('      ' + o[o.find('key='):][:150], flush=True)
            break
print('finished', flush=True)
