#!/usr/bin/env python3
"""Writes /verif/MANIFEST.json from lib/checks.json (one entry per claimed property)."""
import json
checks = json.load(open('/verif/lib/checks.json'))
props = [json.loads(l)['id'] for l in open('/verif/properties.jsonl')]
man = {
 "version": 1,
 "setup_cmd": "./check setup",
 "hooks": {
  "guard": "verif",
  "enable": "go build -tags verif -overlay /verif/.work/overlay.json (files under /verif/overlay/ are added to /repo packages at build time; /repo is not edited for instrumentation)",
  "baseline_off_cmd": "for m in $(cat /w/out/gomods.txt); do MF=$(cd /repo/$m && . /w/out/goenv.sh && gomodflag); (cd /repo/$m && go test $MF -json -vet=off -count=1 -timeout 25m ./...); done",
  "source_commits": [],
  "add_only": True
 },
 "engines": [
  {"name": "vlib", "path": "harness/vlib", "serves_properties": sorted(checks.keys()), "kind_free_text": "run/evidence/known-findings/replay plumbing shared by all drivers"},
 ],
 "checks": [],
 "not_applicable": [],
 "notes": "All checks: ./check <ID> quick|thorough; replay: ./check <ID> --replay <file>. See DESIGN.md."
}
for e in json.load(open('/verif/lib/engines.json')):
    man["engines"].append(e)
for pid in props:
    if pid in checks:
        c = checks[pid]
        man["checks"].append({
         "property_id": pid,
         "quick_cmd": f"./check {pid} quick",
         "thorough_cmd": f"./check {pid} thorough",
         "evidence_file": f"/verif/evidence/{pid}.json",
         "replay_cmd_template": f"./check {pid} --replay {{path}}",
         "engine": c["engine"],
         "level_claimed": {"category": c["level"], "text": c["text"], "design_ref": c.get("design_ref", "DESIGN.md section 3, " + pid)},
         "level_note": c["note"],
         "technique": c["technique"],
        })
    else:
        man["not_applicable"].append({"property_id": pid, "reason": "check not built yet in this session (planned in DESIGN.md section 3); not claimed"})
json.dump(man, open('/verif/MANIFEST.json', 'w'), indent=1)
