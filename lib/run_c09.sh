#!/bin/bash
# C09 orchestrator wrapper: builds every observation driver in the default and the purego
# flavour from the current tree, then runs the comparison.
cd /verif
DRIVERS="${VERIF_C09_DRIVERS:-$(cat lib/c09_drivers.txt)}"
build() { # pkg out tags
  (cd harness && go build -tags "$3" -overlay /verif/.work/overlay.json -o "/verif/.work/bin/$2" "./$1") 2>&1 \
    || { echo "HARNESS-ERROR build of $1 ($3) failed"; exit 2; }
}
pids=()
for d in $DRIVERS; do
  build $d $d verif & pids+=($!)
  build $d ${d}_purego verif,purego & pids+=($!)
done
build c09 c09 verif & pids+=($!)
for p in "${pids[@]}"; do wait $p || exit 2; done
export VERIF_C09_DRIVERS="$DRIVERS"
exec .work/bin/c09 "$@"
