#!/bin/bash
# lib/mut.sh <check id> <repo-relative file> <old> <new>  : apply a one-line mutation to /repo, run the quick check, revert.
id=$1; f=$2; old=$3; new=$4
cd /repo || exit 2
git diff --quiet || { echo "repo dirty"; exit 2; }
python3 - "$f" "$old" "$new" <<'PY' || exit 2
import sys
p,old,new=sys.argv[1:4]
s=open(p).read()
assert s.count(old)>=1, "pattern not found"
open(p,'w').write(s.replace(old,new,1))
PY
cd /verif && VERIF_BUDGET_S=${VERIF_BUDGET_S:-200} ./check $id quick | grep -E "^(VIOLATION|HARNESS|UNREPRO|NOTE|check=)" | cut -c1-${CUT:-300} | head -${HEAD:-8}
cd /repo && git checkout -- . 
