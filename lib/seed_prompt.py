#!/usr/bin/env python3
# lib/seed_prompt.py <PROP> <N>: writes /tmp/agent_prompt_<PROP>_<N>.txt — the brief given to a fresh sub-agent that
# seeds a property-breaking change (only the property's text + its own scratch worktree; nothing from /verif).
import json, sys
pid, n = sys.argv[1], sys.argv[2]
for l in open('/verif/properties.jsonl'):
    d = json.loads(l)
    if d['id'] == pid:
        break
else:
    sys.exit('no such property')
a = d['anchors']
mech = '; '.join(f"{m['name']} @ {m['where']}" for m in a.get('mechanism', []))
txt = f"""You are helping evaluate a verification effort for the Go library Consensys/gnark-crypto (finite fields, elliptic curves, pairings, FFT, KZG, hashes ...; most code is template-generated, so per-curve/per-field copies are uniform).

Your job: produce ONE realistic change ("seeded defect") to the library that BREAKS the following semantic property, while the library still compiles and its existing test-suite still passes — plus a small demonstration that fails with your change and passes without it.

=== PROPERTY ===
ID: {pid}
TITLE: {d['title']}

STATEMENT: {d['statement']}

QUANTIFIER: {d['quantifier']['text']}

WHY TESTS CANNOT SETTLE IT: {d['why_tests_cant']}

ANCHOR FILES: {', '.join(a['files'])}

MECHANISMS: {mech}

=== END PROPERTY ===

Working rules (important):
- Work ONLY in your own scratch git worktree. Create it with:  git -C /repo worktree add /tmp/wt_{pid}_{n} HEAD   (then cd /tmp/wt_{pid}_{n}). Never edit /repo itself, never look at or touch /verif, never commit anything.
- Every shell command needs:  export GOFLAGS=-mod=mod GOPROXY=off GOSUMDB=off GOTOOLCHAIN=local   (the sandbox is offline; go 1.23 is installed).
- The change must be small (a few lines), look like a plausible refactoring slip / optimisation / off-by-one / reordering, and must need something SPECIFIC to manifest: a particular goroutine interleaving, a multi-step sequence of calls, an unusual boundary input, a particular size/option combination, or two cooperating sites that each look fine alone. Do NOT pick something ordinary use exposes at once (the existing tests must keep passing!). Prefer a single instance (one curve or field package, e.g. bn254, bls12-381 or koalabear) — editing the generated .go file directly is fine; do not touch code generators or test files.
- Confirm yourself: (1) `go build ./...` succeeds in the worktree; (2) `go test -count=1 <the packages you touched and packages that import them directly>` passes with your change (run at least the touched package's full tests; note exactly which commands you ran and their result); (3) your demonstration fails WITH the change and passes WITHOUT it (to switch, save `git diff > /tmp/seed_{pid}_{n}/patch.diff`, then `git apply -R` / `git apply` it; do NOT use `git stash` — the stash is shared with the main repository).
- The demonstration is a Go test file or small main program placed OUTSIDE the library's existing test files (e.g. a new file zz_seed_demo_test.go in the package with a test whose name contains "Seed", or a main package under /tmp/wt_{pid}_{n}/zz_demo/). If it needs a particular schedule, make it deterministic enough to fail reliably (e.g. loop many times, GOMAXPROCS; runtime.Gosched injection points are NOT allowed in the library change itself).
- Deliverables, written to /tmp/seed_{pid}_{n}/ (create it): patch.diff (output of `git diff` for the library change ONLY, without the demo file), the demo file(s), and notes.md explaining: what the change is, why it breaks the property, what it needs in order to manifest, the exact commands you ran and what they printed (tests passing with the change, demo failing with / passing without).
- When finished, remove your worktree:  git -C /repo worktree remove --force /tmp/wt_{pid}_{n}   (keep /tmp/seed_{pid}_{n}).
- Your final message: a 5-10 line summary (file changed, nature of the change, trigger condition, test commands run).
"""
if int(n) >= 2:
    import glob
    prev = []
    for f in sorted(glob.glob(f'/verif/seeded/{pid}_*/meta.json')):
        m = json.load(open(f))
        prev += list(m.get('files_changed', []))
    if prev:
        txt += f"- Earlier exercises for this property already changed: {', '.join(sorted(set(prev)))}. Choose a DIFFERENT function and mechanism (preferably another package, curve or field, or another clause of the property statement).\n"
open(f'/tmp/agent_prompt_{pid}_{n}.txt', 'w').write(txt)
print(f'/tmp/agent_prompt_{pid}_{n}.txt')
