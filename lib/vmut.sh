#!/bin/bash
# lib/vmut.sh <check id> <repo-relative file> <line> : neutralise the condition of the `if` on that line (the branch is
# never taken) in an overlay copy - /repo is not touched - build the check's driver against it, run the quick tier with
# evidence and replay files redirected, print what it reports. Used for "is every verifier check exercised" sweeps.
set -u
id=$1; f=$2; line=$3
lc=$(echo "$id" | tr 'A-Z' 'a-z')
export GOFLAGS=-mod=mod GOPROXY=off GOSUMDB=off GOTOOLCHAIN=local GOCACHE=/verif/.cache/go-build CGO_ENABLED=0
W=/tmp/vmut/w_$$; mkdir -p $W/out
python3 - "$f" "$line" "$W" <<'PY' || exit 2
import sys,re,json
f,line,W=sys.argv[1],int(sys.argv[2]),sys.argv[3]
L=open('/repo/'+f).read().split('\n')
l=L[line-1]
m=re.match(r'^(\s*if )(.*)\{\s*$',l)
assert m, l
cond=m.group(2).strip()
if ';' in cond:
    init,c=cond.rsplit(';',1)
    new=f"{m.group(1)}{init}; false && ({c.strip()}) {{"
else:
    new=f"{m.group(1)}false && ({cond}) {{"
L[line-1]=new
open(W+'/mut.go','w').write('\n'.join(L))
ov=json.load(open('/verif/.work/overlay.json'))
ov['Replace']['/repo/'+f]=W+'/mut.go'
json.dump(ov,open(W+'/overlay.json','w'))
print('MUTANT',f,line,'::',l.strip(),'=>',new.strip())
PY
(cd /verif/harness && go build -tags verif -overlay $W/overlay.json -o $W/bin ./$lc) 2>&1 | head -5
[ -x $W/bin ] || { echo "BUILD-FAILED"; rm -rf $W; exit 0; }
VERIF_OUT_DIR=$W/out VERIF_BUDGET_S=${VERIF_BUDGET_S:-200} $W/bin quick 2>&1 | grep -E "^(VIOLATION|HARNESS|check=)" | cut -c1-${CUT:-220} | head -${HEAD:-4}
rm -rf $W
